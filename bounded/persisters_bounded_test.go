package persisters

// Bounded stand-in for the SQL executed by SQLite (outside the reach of the VC generator): the real persister methods
// run against a real SQLite file for every small index view over an adversarial name alphabet, and the result is
// compared with the set comprehension of the method's contract. Injected with `go test -overlay`; never part of /repo.
// Output protocol (parsed by stfsvc): lines "BOUNDED-OK <check> cases=<n>" and "BOUNDED-VIOLATION <check> <detail>".

import (
	"context"
	"fmt"
	"os"
	"path/filepath"
	"sort"
	"strings"
	"testing"

	"github.com/pojntfx/stfs/pkg/config"
)

var boundedAlphabet = []string{
	"/a", "/ab", "/a_", "/a%", "/A", "/é", "/a b", "/a.b",
	"/a/x", "/ab/x", "/a_/x", "/a%/x", "/A/x", "/é/x", "/a b/x", "/a/x/y", "/a/a", "/a/ab", "/é/x/y",
	"/a/a/a", "/a/x/a", "/a/x/a/y",
}

// boundedRelative: build the index the way a replay of the tape into an empty index does (root stored as "", every other
// name relative to it) instead of the way the creating instance does (root "/", absolute names).
var boundedRelative = false

func storedName(n string) string {
	if boundedRelative {
		return strings.TrimPrefix(n, "/")
	}
	return n
}

type bRow struct {
	name    string
	deleted bool
	dir     bool
}

func boundedPersister(t testing.TB, dir string, rows []bRow) *MetadataPersister {
	p := NewMetadataPersister(filepath.Join(dir, "i.sqlite"))
	if err := p.Open(); err != nil {
		t.Fatal(err)
	}
	ctx := context.Background()
	if err := p.PurgeAllHeaders(ctx); err != nil {
		t.Fatal(err)
	}
	all := append([]bRow{{name: "/", dir: true}}, rows...)
	for i, r := range all {
		tf := int64('0')
		if r.dir {
			tf = int64('5')
		}
		if err := p.UpsertHeader(ctx, &config.Header{Name: r.name, Typeflag: tf, Record: int64(i), Lastknownrecord: int64(i), Paxrecords: "{}"}, !boundedRelative); err != nil {
			t.Fatal(err)
		}
	}
	// establish the root cache like a live instance does, then tombstone
	if _, err := p.GetRootPath(ctx); err != nil {
		t.Fatal(err)
	}
	for _, r := range rows {
		if r.deleted {
			if _, err := p.DeleteHeader(ctx, r.name, 99, 0); err != nil {
				t.Fatal(err)
			}
		}
	}
	return p
}

func properDescendant(dir, name string) bool {
	pre := strings.TrimSuffix(dir, "/") + "/"
	return strings.HasPrefix(name, pre) && name != dir && name != dir+"/"
}

func directChild(dir, name string) bool {
	if !properDescendant(dir, name) {
		return false
	}
	rest := strings.TrimSuffix(strings.TrimPrefix(name, strings.TrimSuffix(dir, "/")+"/"), "/")
	return rest != "" && !strings.Contains(rest, "/")
}

func names(hs []*config.Header) []string {
	var out []string
	for _, h := range hs {
		out = append(out, h.Name)
	}
	sort.Strings(out)
	return out
}

func boundedViews(maxRows int) [][]bRow {
	return boundedViewsOver(boundedAlphabet, maxRows)
}

var moveAlphabet = []string{"/a", "/ab", "/a_", "/A", "/a/x", "/é"}

func boundedViewsOver(alphabet []string, maxRows int) [][]bRow {
	boundedAlphabet := alphabet
	var views [][]bRow
	n := len(boundedAlphabet)
	var rec func(start int, cur []bRow)
	rec = func(start int, cur []bRow) {
		views = append(views, append([]bRow{}, cur...))
		if len(cur) == maxRows {
			return
		}
		for i := start; i < n; i++ {
			nm := boundedAlphabet[i]
			isDir := false
			for _, o := range boundedAlphabet {
				if strings.HasPrefix(o, nm+"/") {
					isDir = true
				}
			}
			for _, del := range []bool{false, true} {
				rec(i+1, append(cur, bRow{name: nm, deleted: del, dir: isDir}))
			}
		}
	}
	rec(0, nil)
	return views
}

func boundedMaxRows() int {
	if os.Getenv("VERIF_TIER") == "thorough" {
		return 3
	}
	return 2
}

func TestVerifBounded_GetHeaderChildren(t *testing.T) {
	dir := t.TempDir()
	cases, bad := 0, 0
	ctx := context.Background()
	queries := append([]string{"/"}, boundedAlphabet...)
	for _, rel := range []bool{false, true} {
		boundedRelative = rel
		for _, view := range boundedViews(boundedMaxRows()) {
			p := boundedPersister(t, dir, view)
			for _, q := range queries {
				got, err := p.GetHeaderChildren(ctx, q)
				if err != nil {
					fmt.Printf("BOUNDED-VIOLATION sql:GetHeaderChildren view=%v query=%q error=%v\n", view, q, err)
					bad++
					continue
				}
				var want []string
				for _, r := range view {
					if !r.deleted && properDescendant(q, r.name) {
						want = append(want, storedName(r.name))
					}
				}
				sort.Strings(want)
				cases++
				if strings.Join(names(got), "|") != strings.Join(want, "|") {
					if bad < 8 {
						fmt.Printf("BOUNDED-VIOLATION sql:GetHeaderChildren relative-index=%v view=%v query=%q got=%q want=%q\n", rel, view, q, names(got), want)
					}
					bad++
				}
			}
			p.sqlite.DB.Close()
		}
	}
	boundedRelative = false
	fmt.Printf("BOUNDED-OK sql:GetHeaderChildren cases=%d failing=%d maxrows=%d alphabet=%d\n", cases, bad, boundedMaxRows(), len(boundedAlphabet))
	if bad > 0 {
		t.Fail()
	}
}

func TestVerifBounded_GetHeaderDirectChildren(t *testing.T) {
	dir := t.TempDir()
	cases, bad := 0, 0
	ctx := context.Background()
	queries := append([]string{"/"}, boundedAlphabet...)
	for _, rel := range []bool{false, true} {
		boundedRelative = rel
		for _, view := range boundedViews(boundedMaxRows()) {
			p := boundedPersister(t, dir, view)
			for _, q := range queries {
				got, err := p.GetHeaderDirectChildren(ctx, q, -1)
				if err != nil {
					fmt.Printf("BOUNDED-VIOLATION sql:GetHeaderDirectChildren view=%v query=%q error=%v\n", view, q, err)
					bad++
					continue
				}
				var want []string
				for _, r := range view {
					if !r.deleted && directChild(q, r.name) {
						want = append(want, storedName(r.name))
					}
				}
				sort.Strings(want)
				cases++
				if strings.Join(names(got), "|") != strings.Join(want, "|") {
					if bad < 8 {
						fmt.Printf("BOUNDED-VIOLATION sql:GetHeaderDirectChildren relative-index=%v view=%v query=%q got=%q want=%q\n", rel, view, q, names(got), want)
					}
					bad++
				}
			}
			p.sqlite.DB.Close()
		}
	}
	boundedRelative = false
	fmt.Printf("BOUNDED-OK sql:GetHeaderDirectChildren cases=%d failing=%d maxrows=%d alphabet=%d\n", cases, bad, boundedMaxRows(), len(boundedAlphabet))
	if bad > 0 {
		t.Fail()
	}
}

type bFullRow struct {
	name    string
	deleted int64
	lkr     int64
	rec     int64
}

func dumpRows(t testing.TB, p *MetadataPersister) []bFullRow {
	rows, err := p.sqlite.DB.Query(`select name, deleted, lastknownrecord, record from headers order by name`)
	if err != nil {
		t.Fatal(err)
	}
	defer rows.Close()
	var out []bFullRow
	for rows.Next() {
		var r bFullRow
		if err := rows.Scan(&r.name, &r.deleted, &r.lkr, &r.rec); err != nil {
			t.Fatal(err)
		}
		out = append(out, r)
	}
	return out
}

// MoveHeader(old, new, lk): if a row named old exists it takes the name new (replacing whatever row held that name) and
// the new last-known position; every other row is untouched; if no row is named old nothing changes; never an error.
func TestVerifBounded_MoveHeader(t *testing.T) {
	dir := t.TempDir()
	cases, bad := 0, 0
	ctx := context.Background()
	for _, rel := range []bool{false, true} {
		boundedRelative = rel
		for _, view := range boundedViewsOver(moveAlphabet, boundedMaxRows()) {
			for _, oldN := range moveAlphabet {
				for _, newN := range moveAlphabet {
					p := boundedPersister(t, dir, view)
					before := dumpRows(t, p)
					err := p.MoveHeader(ctx, oldN, newN, 77, 3)
					after := dumpRows(t, p)
					p.sqlite.DB.Close()
					cases++
					var want []bFullRow
					hasOld := false
					for _, r := range before {
						if r.name == storedName(oldN) {
							hasOld = true
						}
					}
					for _, r := range before {
						switch {
						case hasOld && r.name == storedName(oldN):
							want = append(want, bFullRow{storedName(newN), r.deleted, 77, r.rec})
						case hasOld && r.name == storedName(newN) && oldN != newN:
							// replaced
						default:
							want = append(want, r)
						}
					}
					sort.Slice(want, func(i, j int) bool { return want[i].name < want[j].name })
					if err != nil || fmt.Sprint(after) != fmt.Sprint(want) {
						if bad < 8 {
							fmt.Printf("BOUNDED-VIOLATION sql:MoveHeader relative-index=%v view=%v old=%q new=%q err=%v got=%v want=%v\n", rel, view, oldN, newN, err, after, want)
						}
						bad++
					}
				}
			}
		}
	}
	boundedRelative = false
	fmt.Printf("BOUNDED-OK sql:MoveHeader cases=%d failing=%d maxrows=%d alphabet=%d\n", cases, bad, boundedMaxRows(), len(moveAlphabet))
	if bad > 0 {
		t.Fail()
	}
}

// Links: stfs stores a symlink as a row whose name is the target and whose linkname is the link's own path. A directory
// listing must show the link under its own path with the attributes a lookup of the link reports (the target's), in an
// index built by the creating instance as well as in one rebuilt by replay (relative names).
func TestVerifBounded_LinkListing(t *testing.T) {
	dir := t.TempDir()
	cases, bad := 0, 0
	ctx := context.Background()
	type sc struct{ target, link string }
	for _, rel := range []bool{false, true} {
		boundedRelative = rel
		for _, c := range []sc{{"/t", "/l"}, {"/a/t", "/l"}, {"/t", "/a/l"}, {"/a/t", "/a/l"}, {"/a/x/t", "/a/l"}, {"/a_/t", "/a%/l"}} {
			p := NewMetadataPersister(filepath.Join(dir, "i.sqlite"))
			if err := p.Open(); err != nil {
				t.Fatal(err)
			}
			if err := p.PurgeAllHeaders(ctx); err != nil {
				t.Fatal(err)
			}
			rows := []*config.Header{{Name: "/", Typeflag: '5'}}
			for _, d := range []string{"/a", "/a/x", "/a_", "/a%"} {
				rows = append(rows, &config.Header{Name: d, Typeflag: '5'})
			}
			rows = append(rows, &config.Header{Name: c.target, Typeflag: '0', Size: 6}, &config.Header{Name: c.target, Linkname: c.link, Typeflag: '2'})
			for i, r := range rows {
				r.Record, r.Lastknownrecord, r.Paxrecords = int64(i), int64(i), "{}"
				if err := p.UpsertHeader(ctx, r, !rel); err != nil {
					t.Fatal(err)
				}
			}
			if _, err := p.GetRootPath(ctx); err != nil {
				t.Fatal(err)
			}
			cases++
			parent := filepath.Dir(c.link)
			if _, err := p.GetHeaderByLinkname(ctx, c.link); err != nil {
				fmt.Printf("BOUNDED-VIOLATION sql:LinkListing relative-index=%v target=%q link=%q: lookup of the link by its path fails: %v\n", rel, c.target, c.link, err)
				bad++
			}
			got, err := p.GetHeaderDirectChildren(ctx, parent, -1)
			if err != nil {
				t.Fatal(err)
			}
			found := 0
			for _, h := range got {
				if h.Name == storedName(c.link) {
					found++
					if h.Typeflag != '0' || h.Size != 6 {
						fmt.Printf("BOUNDED-VIOLATION sql:LinkListing relative-index=%v target=%q link=%q: listing %q shows the link with typeflag %q size %d, a lookup shows the target's ('0', 6)\n", rel, c.target, c.link, parent, rune(h.Typeflag), h.Size)
						bad++
					}
				}
			}
			if found != 1 {
				fmt.Printf("BOUNDED-VIOLATION sql:LinkListing relative-index=%v target=%q link=%q: listing %q contains the link %d times: %q\n", rel, c.target, c.link, parent, found, names(got))
				bad++
			}
			p.sqlite.DB.Close()
		}
	}
	boundedRelative = false
	fmt.Printf("BOUNDED-OK sql:LinkListing cases=%d failing=%d\n", cases, bad)
	if bad > 0 {
		t.Fail()
	}
}

// Names containing the pattern characters of SQL GLOB ('?', '*', '[...]') next to siblings those patterns would match:
// listings and subtree queries compare names literally.
var patternAlphabet = []string{"/v?", "/v1", "/v1/x", "/v?/y", "/p[1]", "/p1", "/p[1]/z", "/p1/z", "/s*", "/sa", "/sa/x", "/s*/w"}

func TestVerifBounded_PatternChars(t *testing.T) {
	dir := t.TempDir()
	cases, bad := 0, 0
	ctx := context.Background()
	queries := append([]string{"/"}, patternAlphabet...)
	for _, rel := range []bool{false, true} {
		boundedRelative = rel
		for _, view := range boundedViewsOver(patternAlphabet, boundedMaxRows()) {
			p := boundedPersister(t, dir, view)
			for _, q := range queries {
				for _, direct := range []bool{true, false} {
					var got []*config.Header
					var err error
					if direct {
						got, err = p.GetHeaderDirectChildren(ctx, q, -1)
					} else {
						got, err = p.GetHeaderChildren(ctx, q)
					}
					var want []string
					for _, r := range view {
						if !r.deleted && ((direct && directChild(q, r.name)) || (!direct && properDescendant(q, r.name))) {
							want = append(want, storedName(r.name))
						}
					}
					sort.Strings(want)
					cases++
					if err != nil || strings.Join(names(got), "|") != strings.Join(want, "|") {
						if bad < 8 {
							fmt.Printf("BOUNDED-VIOLATION sql:PatternChars relative-index=%v direct=%v view=%v query=%q err=%v got=%q want=%q\n", rel, direct, view, q, err, names(got), want)
						}
						bad++
					}
				}
			}
			p.sqlite.DB.Close()
		}
	}
	boundedRelative = false
	fmt.Printf("BOUNDED-OK sql:PatternChars cases=%d failing=%d maxrows=%d alphabet=%d\n", cases, bad, boundedMaxRows(), len(patternAlphabet))
	if bad > 0 {
		t.Fail()
	}
}

// GetLastIndexedRecordAndBlock: the position the index reports as last written is the greatest LAST-KNOWN position of
// any row (live or tombstoned), whatever the rows' content positions are.
func TestVerifBounded_LastIndexed(t *testing.T) {
	dir := t.TempDir()
	cases, bad := 0, 0
	ctx := context.Background()
	type pos struct{ rec, blk, lkr, lkb int64 }
	var poss []pos
	for _, rec := range []int64{0, 1, 3} {
		for _, blk := range []int64{0, 2} {
			for _, d := range []int64{0, 1, 4} { // last-known position = content position + d blocks
				poss = append(poss, pos{rec, blk, rec + (blk+d)/3, (blk + d) % 3})
			}
		}
	}
	const recordSize = 3
	nm := []string{"/a", "/b", "/c"}
	var rec func(k int, cur []pos)
	rec = func(k int, cur []pos) {
		if k > 0 {
			p := NewMetadataPersister(filepath.Join(dir, "i.sqlite"))
			if err := p.Open(); err != nil {
				t.Fatal(err)
			}
			if err := p.PurgeAllHeaders(ctx); err != nil {
				t.Fatal(err)
			}
			var best int64 = -1
			var wantR, wantB int64
			for i, c := range cur {
				h := &config.Header{Name: nm[i], Typeflag: '0', Record: c.rec, Block: c.blk, Lastknownrecord: c.lkr, Lastknownblock: c.lkb, Paxrecords: "{}"}
				if i == 1 {
					h.Deleted = 1
				}
				if err := p.UpsertHeader(ctx, h, true); err != nil {
					t.Fatal(err)
				}
				if loc := c.lkr*recordSize + c.lkb; loc > best {
					best, wantR, wantB = loc, c.lkr, c.lkb
				}
			}
			r, b, err := p.GetLastIndexedRecordAndBlock(ctx, recordSize)
			cases++
			if err != nil || r*recordSize+b != best {
				if bad < 8 {
					fmt.Printf("BOUNDED-VIOLATION sql:LastIndexed rows(record,block,lastknownrecord,lastknownblock)=%v got=(%d,%d) err=%v want=(%d,%d)\n", cur, r, b, err, wantR, wantB)
				}
				bad++
			}
			p.sqlite.DB.Close()
		}
		if k == boundedMaxRows() {
			return
		}
		for _, c := range poss {
			rec(k+1, append(append([]pos{}, cur...), c))
		}
	}
	rec(0, nil)
	fmt.Printf("BOUNDED-OK sql:LastIndexed cases=%d failing=%d maxrows=%d positions=%d\n", cases, bad, boundedMaxRows(), len(poss))
	if bad > 0 {
		t.Fail()
	}
}
