package ioext

// Bounded stand-in for the byte counters (the wrapped reader/writer is an arbitrary interface value that may write any
// exported field, so "the counter grows by exactly what was delivered" is outside the VC generator's frame reasoning):
// every script of <= 3 (thorough: 4) calls with buffer lengths 0..4 against an inner stream that delivers every possible
// count 0..len(p), with or without an error. Injected with `go test -overlay`; never part of /repo.

import (
	"errors"
	"fmt"
	"io"
	"os"
	"testing"
)

type scriptStep struct {
	buf int
	n   int
	err error
}

type scriptedStream struct {
	steps []scriptStep
	i     int
}

func (s *scriptedStream) step(p []byte) (int, error) {
	st := s.steps[s.i]
	s.i++
	for k := 0; k < st.n; k++ {
		p[k] = byte(s.i*16 + k)
	}
	return st.n, st.err
}
func (s *scriptedStream) Read(p []byte) (int, error)  { return s.step(p) }
func (s *scriptedStream) Write(p []byte) (int, error) { return s.step(make([]byte, len(p))) }
func (s *scriptedStream) Close() error                { return nil }
func (s *scriptedStream) Seek(int64, int) (int64, error) { return 0, nil }

func TestVerifBounded_Counters(t *testing.T) {
	depth := 3
	if os.Getenv("VERIF_TIER") == "thorough" {
		depth = 4
	}
	errBoom := errors.New("boom")
	var alts []scriptStep
	for buf := 0; buf <= 4; buf++ {
		for n := 0; n <= buf; n++ {
			for _, e := range []error{nil, io.EOF, errBoom} {
				alts = append(alts, scriptStep{buf, n, e})
			}
		}
	}
	cases, failing := 0, 0
	var rec func(prefix []scriptStep)
	run := func(steps []scriptStep) {
		type counter struct {
			name string
			call func(p []byte) (int, error)
			read func() int
		}
		mk := func() []counter {
			a := &CounterReader{Reader: &scriptedStream{steps: steps}}
			b := &CounterReadCloser{Reader: &scriptedStream{steps: steps}}
			c := &CounterReadSeekCloser{Reader: &scriptedStream{steps: steps}}
			d := &CounterWriter{Writer: &scriptedStream{steps: steps}}
			return []counter{
				{"CounterReader.Read", a.Read, func() int { return a.BytesRead }},
				{"CounterReadCloser.Read", b.Read, func() int { return b.BytesRead }},
				{"CounterReadSeekCloser.Read", c.Read, func() int { return c.BytesRead }},
				{"CounterWriter.Write", d.Write, func() int { return d.BytesRead }},
			}
		}
		for _, c := range mk() {
			cases++
			want := 0
			for i, st := range steps {
				n, err := c.call(make([]byte, st.buf))
				want += st.n
				if n != st.n || err != st.err || c.read() != want {
					failing++
					fmt.Printf("BOUNDED-VIOLATION ioext:Counters %s script=%v call=%d returned (%d, %v) counter=%d, want (%d, %v) counter=%d\n", c.name, steps, i, n, err, c.read(), st.n, st.err, want)
					break
				}
			}
		}
	}
	rec = func(prefix []scriptStep) {
		if len(prefix) > 0 {
			run(prefix)
		}
		if len(prefix) == depth {
			return
		}
		for _, a := range alts {
			rec(append(append([]scriptStep{}, prefix...), a))
		}
	}
	rec(nil)
	fmt.Printf("BOUNDED-OK ioext:Counters cases=%d failing=%d\n", cases, failing)
	if failing > 0 {
		t.Fail()
	}
}
