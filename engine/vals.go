package main

import (
	"fmt"
	"go/types"
	"strings"

	"golang.org/x/tools/go/ssa"
)

type VK int

const (
	VInt VK = iota
	VBool
	VStr
	VReal
	VRef   // pointer; Int term, 0 = nil
	VIface // interface value; Int term, 0 = nil
	VFunc  // func value; Int term, 0 = nil
	VMap   // map; Int term, 0 = nil
	VOpaque
	VSlice  // T = base (Int), Len
	VStruct // Fs
	VTuple  // Fs
)

type FuncProv struct {
	Spec     string        // named spec / contract key
	Fn       *ssa.Function // closure or function body
	Bindings []Val         // closure bindings
	Maybe    bool          // the spec applies only if conf/Spec(value) holds
}

type Val struct {
	K    VK
	T    string
	Len  string
	Fs   []Val
	Typ  types.Type
	Prov *FuncProv
	ID   string // identity of a struct value obtained by unboxing an interface value (the interface term)
}

func (v Val) sort() string { return kindSort(v.K) }

func kindSort(k VK) string {
	switch k {
	case VBool:
		return "Bool"
	case VStr:
		return "String"
	case VReal:
		return "Real"
	}
	return "Int"
}

func kindOf(t types.Type) VK {
	switch u := t.Underlying().(type) {
	case *types.Basic:
		info := u.Info()
		switch {
		case info&types.IsBoolean != 0:
			return VBool
		case info&types.IsString != 0:
			return VStr
		case info&types.IsFloat != 0:
			return VReal
		case info&types.IsInteger != 0:
			return VInt
		case u.Kind() == types.UnsafePointer:
			return VRef
		case u.Kind() == types.UntypedNil:
			return VRef
		}
		return VOpaque
	case *types.Pointer:
		return VRef
	case *types.Interface:
		return VIface
	case *types.Signature:
		return VFunc
	case *types.Map:
		return VMap
	case *types.Chan:
		return VOpaque
	case *types.Slice:
		return VSlice
	case *types.Struct:
		return VStruct
	case *types.Tuple:
		return VTuple
	case *types.Array:
		return VOpaque
	}
	return VOpaque
}

// ---- SMT term helpers ----

func sAnd(xs ...string) string {
	var ys []string
	for _, x := range xs {
		if x == "true" || x == "" {
			continue
		}
		if x == "false" {
			return "false"
		}
		ys = append(ys, x)
	}
	switch len(ys) {
	case 0:
		return "true"
	case 1:
		return ys[0]
	}
	return "(and " + strings.Join(ys, " ") + ")"
}

func sOr(xs ...string) string {
	var ys []string
	for _, x := range xs {
		if x == "false" || x == "" {
			continue
		}
		if x == "true" {
			return "true"
		}
		ys = append(ys, x)
	}
	switch len(ys) {
	case 0:
		return "false"
	case 1:
		return ys[0]
	}
	return "(or " + strings.Join(ys, " ") + ")"
}

func sNot(x string) string {
	switch x {
	case "true":
		return "false"
	case "false":
		return "true"
	}
	if strings.HasPrefix(x, "(not ") && strings.HasSuffix(x, ")") && balanced(x[5:len(x)-1]) {
		return x[5 : len(x)-1]
	}
	return "(not " + x + ")"
}

func balanced(s string) bool {
	d := 0
	inq := false
	for i := 0; i < len(s); i++ {
		switch s[i] {
		case '"':
			inq = !inq
		case '(':
			if !inq {
				d++
			}
		case ')':
			if !inq {
				d--
				if d < 0 {
					return false
				}
			}
		case ' ':
			if d == 0 && !inq {
				return false
			}
		}
	}
	return d == 0
}

func sImp(a, b string) string {
	if a == "true" {
		return b
	}
	if a == "false" || b == "true" {
		return "true"
	}
	return "(=> " + a + " " + b + ")"
}
func sIte(c, a, b string) string {
	if c == "true" {
		return a
	}
	if c == "false" {
		return b
	}
	if a == b {
		return a
	}
	return "(ite " + c + " " + a + " " + b + ")"
}
func sEq(a, b string) string {
	if a == b {
		return "true"
	}
	return "(= " + a + " " + b + ")"
}
func sSel(a, i string) string    { return "(select " + a + " " + i + ")" }
func sSto(a, i, v string) string { return "(store " + a + " " + i + " " + v + ")" }
func sInt(n int64) string {
	if n < 0 {
		return fmt.Sprintf("(- %d)", -n)
	}
	return fmt.Sprintf("%d", n)
}

func smtStr(s string) string {
	var sb strings.Builder
	sb.WriteByte('"')
	for _, r := range s {
		switch {
		case r == '"':
			sb.WriteString(`""`)
		case r < 32 || r > 126 || r == '\\':
			sb.WriteString(fmt.Sprintf(`\u{%x}`, r))
		default:
			sb.WriteRune(r)
		}
	}
	sb.WriteByte('"')
	return sb.String()
}

func sym(s string) string {
	s = strings.ReplaceAll(s, "|", "!")
	s = strings.ReplaceAll(s, "\\", "!")
	return "|" + s + "|"
}

func typeKey(t types.Type) string {
	return types.TypeString(t, nil)
}

func shortTypeKey(t types.Type) string {
	return types.TypeString(t, func(p *types.Package) string { return p.Name() })
}
