package main

import (
	"fmt"
	"go/types"
	"os"
	"sort"
	"strings"

	"golang.org/x/tools/go/packages"
	"golang.org/x/tools/go/ssa"
	"golang.org/x/tools/go/ssa/ssautil"
)

type Engine struct {
	prog     *ssa.Program
	pkgs     []*packages.Package
	db       *SpecDB
	modPath  string
	repo     string
	funcs    map[string]*ssa.Function
	typeIDs  map[string]int
	loadSecs float64
}

func (e *Engine) inModule(fn *ssa.Function) bool {
	if fn.Pkg != nil {
		return strings.HasPrefix(fn.Pkg.Pkg.Path(), e.modPath)
	}
	if fn.Parent() != nil {
		return e.inModule(fn.Parent())
	}
	// wrappers / bound methods: decide by the receiver's package
	if fn.Signature.Recv() != nil {
		t := fn.Signature.Recv().Type()
		if p, ok := t.(*types.Pointer); ok {
			t = p.Elem()
		}
		if n, ok := t.(*types.Named); ok && n.Obj().Pkg() != nil {
			return strings.HasPrefix(n.Obj().Pkg().Path(), e.modPath)
		}
	}
	return false
}

func LoadEngine(repo, specDir string) (*Engine, error) {
	cfg := &packages.Config{
		Mode:       packages.LoadAllSyntax | packages.NeedModule,
		Dir:        repo,
		BuildFlags: []string{"-tags=verif"},
		Env:        append(os.Environ(), "GOFLAGS=-mod=mod", "GOPROXY=off", "GOSUMDB=off", "GOTOOLCHAIN=local"),
	}
	pkgs, err := packages.Load(cfg, "./pkg/...", "./internal/...")
	if err != nil {
		return nil, err
	}
	nerr := 0
	packages.Visit(pkgs, nil, func(p *packages.Package) {
		for _, e := range p.Errors {
			if nerr < 10 {
				fmt.Fprintf(os.Stderr, "load error: %s: %v\n", p.PkgPath, e)
			}
			nerr++
		}
	})
	if nerr > 0 {
		return nil, fmt.Errorf("%d package load errors (does /repo build with -tags verif?)", nerr)
	}
	prog, spkgs := ssautil.AllPackages(pkgs, ssa.InstantiateGenerics|ssa.GlobalDebug)
	modPath := ""
	for _, p := range pkgs {
		if p.Module != nil {
			modPath = p.Module.Path
			break
		}
	}
	if modPath == "" {
		if b, err := os.ReadFile(repo + "/go.mod"); err == nil {
			for _, l := range strings.Split(string(b), "\n") {
				if strings.HasPrefix(l, "module ") {
					modPath = strings.TrimSpace(strings.TrimPrefix(l, "module "))
				}
			}
		}
	}
	if modPath == "" {
		return nil, fmt.Errorf("cannot determine module path")
	}
	// build only in-module packages: external functions stay body-less declarations
	for _, sp := range spkgs {
		if sp != nil && strings.HasPrefix(sp.Pkg.Path(), modPath) {
			sp.Build()
		}
	}
	for _, sp := range prog.AllPackages() {
		if strings.HasPrefix(sp.Pkg.Path(), modPath) {
			sp.Build()
		}
	}
	e := &Engine{prog: prog, pkgs: pkgs, modPath: modPath, repo: repo, funcs: map[string]*ssa.Function{}, typeIDs: map[string]int{}}
	for fn := range ssautil.AllFunctions(prog) {
		if e.inModule(fn) {
			e.funcs[fn.String()] = fn
		}
	}
	// anonymous functions are reachable through parents
	var addAnon func(fn *ssa.Function)
	addAnon = func(fn *ssa.Function) {
		for _, a := range fn.AnonFuncs {
			e.funcs[a.String()] = a
			addAnon(a)
		}
	}
	for _, sp := range prog.AllPackages() {
		if !strings.HasPrefix(sp.Pkg.Path(), modPath) {
			continue
		}
		for _, m := range sp.Members {
			if fn, ok := m.(*ssa.Function); ok {
				e.funcs[fn.String()] = fn
				addAnon(fn)
			}
			if t, ok := m.(*ssa.Type); ok {
				for _, tt := range []types.Type{t.Type(), types.NewPointer(t.Type())} {
					ms := prog.MethodSets.MethodSet(tt)
					for i := 0; i < ms.Len(); i++ {
						if fn := prog.MethodValue(ms.At(i)); fn != nil && e.inModule(fn) {
							e.funcs[fn.String()] = fn
							addAnon(fn)
						}
					}
				}
			}
		}
	}
	e.db = NewSpecDB()
	if err := e.db.LoadAll(repo, modPath, specDir); err != nil {
		return nil, err
	}
	return e, nil
}

func shortFuncName(fn *ssa.Function) string {
	// (*github.com/pojntfx/stfs/pkg/operations.Operations).Delete -> operations.Operations.Delete
	s := fn.String()
	s = strings.ReplaceAll(s, "(*", "")
	s = strings.ReplaceAll(s, "(", "")
	s = strings.ReplaceAll(s, ")", "")
	if i := strings.LastIndex(s, "/"); i >= 0 {
		s = s[i+1:]
	}
	return s
}

// Verify translates one function under contract and returns its translator with all obligations.
func (e *Engine) Verify(fn *ssa.Function, c *Contract, prop string) *Tr {
	// Heaps are discovered during translation; a havoc must cover heaps that are first read after it. Translate
	// until the set of heap names is stable (normally two passes) with all names declared up front.
	pre := map[string]string{}
	var tr *Tr
	for pass := 0; pass < 5; pass++ {
		tr = e.verifyPass(fn, c, pre, prop)
		grown := false
		for k, s := range tr.sorts {
			if _, ok := pre[k]; !ok {
				pre[k] = s
				grown = true
			}
		}
		if !grown {
			break
		}
	}
	return tr
}

func (e *Engine) verifyPass(fn *ssa.Function, c *Contract, pre map[string]string, prop string) *Tr {
	tr := &Tr{
		prop: prop,
		eng:  e, top: fn, topShort: shortFuncName(fn), contract: c,
		declared: map[string]bool{}, sorts: map[string]string{}, obls: map[string]*Obl{},
		init: &State{H: map[string]string{}}, used: map[string]bool{}, uninterp: map[string]bool{},
	}
	tr.privPkg = pkgOfFn(fn)
	{
		var ks []string
		for k := range pre {
			ks = append(ks, k)
		}
		sort.Strings(ks)
		for _, k := range ks {
			if isFlagName(k) {
				continue
			}
			tr.sorts[k] = pre[k]
			tr.init.H[k] = tr.declare(k+"@0", pre[k])
		}
	}
	f := tr.newFrame(fn, nil)
	f.contract = c
	f.oldSt = tr.init
	st := &State{H: map[string]string{}}
	var args []Val
	for i, p := range fn.Params {
		v := tr.freshValNamed(p.Type(), "p/"+p.Name())
		tr.constrainParam(v, i == 0 && fn.Signature.Recv() != nil)
		if sp, ok := c.ParamSpecs[p.Name()]; ok {
			v.Prov = &FuncProv{Spec: sp}
		}
		if sp, ok := c.MaybeSpecs[p.Name()]; ok {
			v.Prov = &FuncProv{Spec: sp, Maybe: true}
		}
		args = append(args, v)
	}
	var binds []Val
	for _, fv := range fn.FreeVars {
		v := tr.freshValNamed(fv.Type(), "fv/"+fv.Name())
		tr.constrainParam(v, true)
		binds = append(binds, v)
	}
	for _, b := range fn.Blocks {
		for i, in := range b.Instrs {
			if _, ok := in.(*ssa.Defer); ok {
				name := fmt.Sprintf("D/%d/%d.%d", f.act, b.Index, i)
				tr.sorts[name] = "Bool"
				tr.init.H[name] = "false"
				st.H[name] = "false"
			}
		}
	}
	f.cur = PP{R: "true", St: st}
	// bind parameters early so that requires can be evaluated
	for i, p := range fn.Params {
		f.params[p.Name()] = args[i]
	}
	for i, fv := range fn.FreeVars {
		f.params[fv.Name()] = binds[i]
	}
	tr.topFrame, tr.topArgs, tr.topBinds = f, args, binds
	env := f.contractEnvTop(c, args, binds, nil)
	for _, cl := range c.Requires {
		t, err := env.boolExpr(cl.E)
		if err != nil {
			tr.errorf("%s: requires: %v", fn.Name(), err)
			continue
		}
		f.assume(t)
	}
	for _, sn := range c.Conforms {
		S := e.db.Contracts[sn]
		if S == nil {
			tr.errorf("%s: conforms to unknown spec %s", fn.Name(), sn)
			continue
		}
		envS := f.bindContractEnv(S, fn.Signature, false, args, nil)
		envS.old = tr.init
		for _, cl := range S.Requires {
			if t, err := envS.boolExpr(cl.E); err == nil {
				f.assume(t)
			} else {
				tr.errorf("%s: requires of spec %s: %v", fn.Name(), sn, err)
			}
		}
	}
	// axioms
	for _, ax := range e.db.Axioms {
		if prop != "" && ax.Prop != "" && ax.Prop != prop && !containsStr(ax.Also, prop) {
			continue
		}
		t, err := env.boolExpr(ax.E)
		if err != nil {
			tr.errorf("axiom %s: %v", ax.Src, err)
			continue
		}
		tr.fact(t)
	}
	entry := f.cur
	rets := f.run(entry, args, binds)
	var retRs []string
	for ri := range rets {
		r := &rets[ri]
		retRs = append(retRs, r.pp.R)
		// ghost assignments at exit
		if len(c.GhostSets) > 0 {
			r.pp.St = r.pp.St.clone()
			genv := f.contractEnvTop(c, args, binds, r.results)
			genv.cur = r.pp.St
			genv.old = tr.init
			for _, gs := range c.GhostSets {
				if err := tr.applyGhostSet(genv, gs, r.pp.St); err != nil {
					tr.errorf("%s: ghostset: %v", fn.Name(), err)
				}
			}
		}
		// results declared `fresh`: the returned object is one this call allocated itself
		if c.Kind == "func" {
			_, rnames := sigNames(fn.Signature, false)
			if c.HasNames && len(c.ResultNames) > 0 {
				rnames = c.ResultNames
			}
			for i, rv := range r.results {
				nm := fmt.Sprintf("result%d", i)
				if i < len(rnames) && rnames[i] != "" {
					nm = rnames[i]
				}
				if !(containsStr(c.Fresh, nm) || containsStr(c.Fresh, fmt.Sprintf("result%d", i)) || (len(r.results) == 1 && containsStr(c.Fresh, "result"))) || rv.K != VRef {
					continue
				}
				f.cur = r.pp
				alts := []string{sEq(rv.T, "0")}
				for _, o := range tr.ownRefs {
					alts = append(alts, sEq(rv.T, o))
				}
				f.addSite(prop, "fresh."+nm, "postcondition", "fresh "+nm+": the result is an object allocated by this call (or nil)", r.sig, sAnd(r.pp.R, sNot(sOr(alts...))))
			}
		}
		// conformance to named specs
		for _, sn := range c.Conforms {
			S := e.db.Contracts[sn]
			if S == nil {
				continue
			}
			f.cur = r.pp
			envS := f.bindContractEnv(S, fn.Signature, false, args, r.results)
			envS.cur = r.pp.St
			envS.old = tr.init
			for i, cl := range S.Ensures {
				t, err := envS.boolExpr(cl.E)
				if err != nil {
					tr.errorf("%s: ensures of spec %s: %v", fn.Name(), sn, err)
					continue
				}
				lbl := cl.Label
				if lbl == "" {
					lbl = fmt.Sprintf("post%d", i+1)
				}
				f.addSite(cl.Prop, "conforms."+sn+"."+lbl, "conformance", cl.Src, r.sig, sAnd(r.pp.R, sNot(t)))
			}
		}
		env := f.contractEnvTop(c, args, binds, r.results)
		env.cur = r.pp.St
		env.old = tr.init
		// local names visible at this return (values of source variables) may be mentioned in postconditions; parameters
		// and results keep priority
		{
			loc := &Env{f: f, vars: map[string]Val{}, cur: r.pp.St, old: tr.init}
			saveBlock, saveIn := f.curBlock, f.curIn
			f.curBlock, f.curIn = r.instr.Block(), r.instr
			f.bindDebugNames(loc, r.instr.Block())
			f.curBlock, f.curIn = saveBlock, saveIn
			for n, v := range loc.vars {
				if _, taken := env.vars[n]; !taken {
					env.vars[n] = v
				}
			}
			// a source variable that is not in scope at this return stands for an arbitrary value: a clause that
			// mentions it must hold whatever it is (so `guard ==> P(local)` is decided by the guard alone there)
			single := localSingleDefs(fn)
			for n, t := range localVarTypes(fn) {
				if _, taken := env.vars[n]; taken {
					continue
				}
				// assigned exactly once in the function: its value on the paths through that assignment (on other
				// paths the term is unconstrained, i.e. arbitrary, as it should be)
				if x, ok := single[n]; ok {
					if v, ok := f.vals[x]; ok {
						env.vars[n] = v
						continue
					}
				}
				env.vars[n] = tr.freshVal(t, "outofscope/"+n)
			}
		}
		for i, cl := range c.Ensures {
			t, err := env.boolExpr(cl.E)
			if err != nil {
				tr.errorf("%s: ensures: %v", fn.Name(), err)
				continue
			}
			lbl := cl.Label
			if lbl == "" {
				lbl = fmt.Sprintf("post%d", i+1)
			}
			f.cur = r.pp
			cjs := env.conjuncts(cl.E)
			if len(cjs) <= 1 {
				f.addSite(cl.Prop, lbl, "postcondition", cl.Src, r.sig, sAnd(r.pp.R, sNot(t)))
			} else {
				for _, cj := range cjs {
					ct, err := env.boolExpr(cj)
					if err != nil {
						continue
					}
					f.addSiteW(cl.Prop, lbl, "postcondition", cl.Src, r.sig+" :: "+cj.String(), sAnd(r.pp.R, sNot(ct)), cj.String())
				}
			}
		}
	}
	// ghost frame: ghost state not listed in `modifies` is unchanged at every return
	tr.ghostFrames(f, c, args, binds, rets)
	// an `at call Callee#k` clause that names no call site of the function would silently assert nothing (without an
	// ordinal the clause quantifies over all calls of that callee, possibly none)
	for i, ac := range c.AtCalls {
		if ac.K != 0 && !tr.atMatched[i] && (prop == "" || ac.Clause.Prop == "" || ac.Clause.Prop == prop) {
			k := ""
			if ac.K != 0 {
				k = fmt.Sprintf("#%d", ac.K)
			}
			tr.errorf("%s: `at call %s%s` [%s] matches no call site", fn.Name(), ac.Callee, k, ac.Clause.Label)
		}
	}
	// vacuity: some return must be reachable under the preconditions
	sort.Slice(retRs, func(i, j int) bool { return len(tr.script(retRs[i], false)) < len(tr.script(retRs[j], false)) })
	for i, r := range retRs {
		if i >= 4 {
			break
		}
		tr.covers = append(tr.covers, &Site{Sig: "some return reachable", Goal: r, Expect: "sat"})
	}
	return tr
}

func (tr *Tr) constrainParam(v Val, nonnil bool) {
	switch v.K {
	case VRef, VIface, VFunc, VMap:
		if nonnil && v.K == VRef {
			tr.fact("(> " + v.T + " 0)")
		} else {
			tr.fact("(>= " + v.T + " 0)")
		}
	case VSlice:
		tr.fact("(>= " + v.T + " 0)")
		tr.fact("(>= " + v.Len + " 0)")
	case VStruct, VTuple:
		for _, f := range v.Fs {
			tr.constrainParam(f, false)
		}
	case VInt:
		if b, ok := v.Typ.Underlying().(*types.Basic); ok && b.Info()&types.IsUnsigned != 0 {
			tr.fact("(>= " + v.T + " 0)")
		}
	}
}

// contractEnvTop: environment for the function's own contract (params by their real names, results).
func (f *Frame) contractEnvTop(c *Contract, args, binds, results []Val) *Env {
	env := &Env{f: f, vars: map[string]Val{}, cur: f.cur.St, old: f.tr.init}
	fn := f.fn
	names := []string{}
	for _, p := range fn.Params {
		names = append(names, p.Name())
	}
	if c.HasNames && len(c.ParamNames) == len(names) {
		names = c.ParamNames
	}
	for i, a := range args {
		env.vars[names[i]] = a
		env.vars[fn.Params[i].Name()] = a
	}
	for i, b := range binds {
		bindFreeVar(f.tr, env, fn.FreeVars[i], b)
	}
	sig := fn.Signature
	_, rn := sigNames(sig, false)
	if c.HasNames && len(c.ResultNames) > 0 {
		rn = c.ResultNames
	}
	for i, r := range results {
		if i < len(rn) {
			env.vars[rn[i]] = r
		}
		env.vars[fmt.Sprintf("result%d", i)] = r
	}
	if len(results) == 1 {
		if _, ok := env.vars["result"]; !ok {
			env.vars["result"] = results[0]
		}
	}
	if n := len(results); n > 0 && isErrorType(sig.Results().At(n-1).Type()) {
		env.vars["err"] = results[n-1]
	}
	return env
}

// functionsFor lists the in-module functions whose contract mentions property prop.
func (e *Engine) functionsFor(prop string) ([]*ssa.Function, []*Contract, []string) {
	var keys []string
	ownsGhost := false
	for _, g := range e.db.Ghosts {
		if g.Prop == prop {
			ownsGhost = true
		}
	}
	for k, c := range e.db.Contracts {
		// a property that owns ghost state also checks the ghost frame of every function under contract
		if c.Kind == "func" && (prop == "" || c.Props[prop] || ownsGhost) {
			keys = append(keys, k)
		}
	}
	sort.Strings(keys)
	var fns []*ssa.Function
	var cs []*Contract
	var missing []string
	for _, k := range keys {
		fn := e.funcs[k]
		if fn == nil {
			missing = append(missing, k)
			continue
		}
		fns = append(fns, fn)
		cs = append(cs, e.db.Contracts[k])
	}
	return fns, cs, missing
}

// immutableHeap reports whether heap name k belongs to a field declared `immutable` (never written after construction;
// checked by checkImmutables).
func (e *Engine) immutableHeap(k string) bool {
	if !strings.HasPrefix(k, "F/") {
		return false
	}
	rest := k[2:]
	i := strings.LastIndex(rest, "/")
	if i < 0 {
		return false
	}
	name := rest[:i] + "." + strings.TrimSuffix(strings.TrimSuffix(rest[i+1:], "#base"), "#len")
	return e.db.Immutable[name]
}

// checkImmutables verifies mechanically that no in-module function stores to a field declared immutable, except
// into an object it allocated itself (constructor pattern). Returns the offending sites.
func (e *Engine) checkImmutables() []string {
	var bad []string
	var keys []string
	for k := range e.funcs {
		keys = append(keys, k)
	}
	sort.Strings(keys)
	for _, k := range keys {
		fn := e.funcs[k]
		for _, b := range fn.Blocks {
			for _, in := range b.Instrs {
				st, ok := in.(*ssa.Store)
				if !ok {
					continue
				}
				fa, ok := st.Addr.(*ssa.FieldAddr)
				if !ok {
					continue
				}
				pt := pointee(fa.X.Type())
				s, ok := pt.Underlying().(*types.Struct)
				if !ok {
					continue
				}
				name := typeKey(pt) + "." + s.Field(fa.Field).Name()
				if !e.db.Immutable[name] {
					continue
				}
				if _, fresh := fa.X.(*ssa.Alloc); fresh {
					continue
				}
				bad = append(bad, fmt.Sprintf("%s stores to immutable field %s", fn.String(), name))
			}
		}
	}
	return bad
}

func (tr *Tr) ghostFrames(f *Frame, c *Contract, args, binds []Val, rets []retRec) {
	e := tr.eng
	type keyed struct{ keys []*Expr }
	whole := map[string]bool{}
	keys := map[string][]*Expr{}
	for _, m := range c.Modifies {
		if strings.HasPrefix(m, "F/") || strings.HasPrefix(m, "C/") {
			continue
		}
		ex, err := ParseExpr(m)
		if err != nil {
			continue
		}
		switch ex.K {
		case EIdent:
			whole[ex.Name] = true
		case EIndex:
			if ex.A.K == EIdent {
				keys[ex.A.Name] = append(keys[ex.A.Name], ex.Bx)
			}
		}
	}
	for _, gn := range e.db.GhostOrder {
		g := e.db.Ghosts[gn]
		if whole[gn] || g.Prop == "" || g.NoFrame {
			continue
		}
		srt := ghostSort(g.Sort)
		initT := tr.stateGet(tr.init, "G/"+gn, srt)
		for _, r := range rets {
			fin := tr.stateGet(r.pp.St, "G/"+gn, srt)
			if fin == initT {
				f.cur = r.pp
				f.addSite(g.Prop, "frame."+gn, "frame", "ghost "+gn+" unchanged except where `modifies` says", r.sig, "false")
				continue
			}
			allowed := initT
			env := f.contractEnvTop(c, args, binds, r.results)
			env.cur = tr.init
			ok := true
			for _, k := range keys[gn] {
				kv, err := env.expr(k)
				if err != nil {
					tr.errorf("%s: modifies key %s: %v", f.fn.Name(), k, err)
					ok = false
					break
				}
				allowed = sSto(allowed, kv.T, sSel(fin, kv.T))
			}
			if !ok {
				continue
			}
			allowed = tr.allowFreshKeys(allowed, fin, g)
			f.cur = r.pp
			f.addSite(g.Prop, "frame."+gn, "frame", "ghost "+gn+" unchanged except where `modifies` says", r.sig, sAnd(r.pp.R, sNot(sEq(fin, allowed))))
		}
	}
}

// bindFreeVar: a free variable is the address of the captured variable; contracts refer to the variable itself.
func bindFreeVar(tr *Tr, env *Env, fv *ssa.FreeVar, cell Val) {
	env.vars["addr_"+fv.Name()] = cell
	if pt := pointee(fv.Type()); pt != nil && cell.K == VRef {
		if _, isArr := pt.Underlying().(*types.Array); !isArr {
			env.vars[fv.Name()] = tr.load(env.cur, pt, cell.T)
			return
		}
	}
	env.vars[fv.Name()] = cell
}

func (tr *Tr) applyGhostSet(env *Env, gs GhostSet, st *State) error {
	val, err := env.expr(gs.Value.E)
	if err != nil {
		return err
	}
	switch gs.Target.K {
	case EIdent:
		g := tr.eng.db.Ghosts[gs.Target.Name]
		if g == nil {
			return fmt.Errorf("unknown ghost %s", gs.Target.Name)
		}
		tr.stateSet(st, "G/"+g.Name, ghostSort(g.Sort), val.T)
		return nil
	case EIndex:
		if gs.Target.A.K == EIdent {
			g := tr.eng.db.Ghosts[gs.Target.A.Name]
			if g == nil {
				return fmt.Errorf("unknown ghost %s", gs.Target.A.Name)
			}
			k, err := env.expr(gs.Target.Bx)
			if err != nil {
				return err
			}
			srt := ghostSort(g.Sort)
			tr.stateSet(st, "G/"+g.Name, srt, tr.define("gset", srt, sSto(tr.stateGet(st, "G/"+g.Name, srt), k.T, val.T)))
			return nil
		}
	}
	return fmt.Errorf("unsupported ghostset target %s", gs.Target)
}

// confFact: facts about which named specs a function value is declared to conform to.
func (tr *Tr) confFacts(fnTerm string, fn *ssa.Function) {
	declared := map[string]bool{}
	if c := tr.eng.db.Contracts[fn.String()]; c != nil {
		for _, s := range c.Conforms {
			declared[s] = true
		}
	}
	for _, s := range tr.eng.confSpecs() {
		p := tr.declareFun("conf/"+s, []string{"Int"}, "Bool")
		if declared[s] {
			tr.fact("(" + p + " " + fnTerm + ")")
		} else {
			tr.fact("(not (" + p + " " + fnTerm + "))")
		}
	}
}

// confSpecs: every spec name used in a `maybe` declaration or a `conforms` declaration.
func (e *Engine) confSpecs() []string {
	set := map[string]bool{}
	for _, c := range e.db.Contracts {
		for _, ss := range c.MaybeSpecs {
			for _, s := range strings.Split(ss, "|") {
				set[s] = true
			}
		}
		for _, s := range c.Conforms {
			set[s] = true
		}
	}
	var out []string
	for s := range set {
		out = append(out, s)
	}
	sort.Strings(out)
	return out
}

func (e *Engine) namedType(full string) types.Type {
	i := strings.LastIndex(full, ".")
	if i < 0 {
		return nil
	}
	path, name := full[:i], full[i+1:]
	for _, p := range e.prog.AllPackages() {
		if p.Pkg.Path() == path {
			if o := p.Pkg.Scope().Lookup(name); o != nil {
				return o.Type()
			}
		}
	}
	return nil
}

// allowFreshKeys: ghost map entries keyed by objects this function allocated itself are not part of its frame.
func (tr *Tr) allowFreshKeys(allowed, fin string, g *GhostDecl) string {
	if !strings.HasPrefix(g.Sort, "map[ref]") && !strings.HasPrefix(g.Sort, "map[int]") {
		return allowed
	}
	for i := 1; i <= tr.nalloc; i++ {
		k := sInt(int64(-i))
		allowed = sSto(allowed, k, sSel(fin, k))
	}
	return allowed
}

// VerifyLemmas turns every `lemma [label] expr` of property prop into an obligation over the definitions only.
func (e *Engine) VerifyLemmas(prop string) *Tr {
	var ls []Clause
	for _, l := range e.db.Lemmas {
		if prop == "" || l.Prop == prop {
			ls = append(ls, l)
		}
	}
	if len(ls) == 0 {
		return nil
	}
	tr := &Tr{
		eng: e, topShort: "lemma", prop: prop,
		declared: map[string]bool{}, sorts: map[string]string{}, obls: map[string]*Obl{},
		init: &State{H: map[string]string{}}, used: map[string]bool{}, uninterp: map[string]bool{},
	}
	f := &Frame{tr: tr, top: true, vals: map[ssa.Value]Val{}, callName: map[ssa.Instruction]string{}}
	f.cur = PP{R: "true", St: &State{H: map[string]string{}}}
	for i, l := range ls {
		env := &Env{f: f, vars: map[string]Val{}, cur: f.cur.St, old: tr.init}
		t, err := env.boolExpr(l.E)
		if err != nil {
			tr.errorf("lemma %s: %v", l.Src, err)
			continue
		}
		lbl := l.Label
		if lbl == "" {
			lbl = fmt.Sprintf("lemma%d", i+1)
		}
		f.addSite(l.Prop, lbl, "lemma", l.Src, "lemma", sNot(t))
	}
	return tr
}

// localVarTypes: names and types of the source-level local variables of fn (from debug references and named phis).
func localVarTypes(fn *ssa.Function) map[string]types.Type {
	out := map[string]types.Type{}
	for _, b := range fn.Blocks {
		for _, in := range b.Instrs {
			switch x := in.(type) {
			case *ssa.DebugRef:
				if x.IsAddr {
					continue
				}
				if v, ok := x.Object().(*types.Var); ok && v != nil {
					if _, dup := out[v.Name()]; !dup {
						out[v.Name()] = v.Type()
					}
				}
			case *ssa.Phi:
				if x.Comment != "" {
					if _, dup := out[x.Comment]; !dup {
						out[x.Comment] = x.Type()
					}
				}
			}
		}
	}
	return out
}

// localSingleDefs: source variables (by name) that denote one single SSA value everywhere in fn.
func localSingleDefs(fn *ssa.Function) map[string]ssa.Value {
	seen := map[string]map[ssa.Value]bool{}
	for _, b := range fn.Blocks {
		for _, in := range b.Instrs {
			if x, ok := in.(*ssa.DebugRef); ok && !x.IsAddr {
				if v, ok := x.Object().(*types.Var); ok && v != nil {
					if seen[v.Name()] == nil {
						seen[v.Name()] = map[ssa.Value]bool{}
					}
					seen[v.Name()][x.X] = true
				}
			}
		}
	}
	out := map[string]ssa.Value{}
	for n, vs := range seen {
		if len(vs) == 1 {
			for v := range vs {
				if _, isConst := v.(*ssa.Const); !isConst {
					out[n] = v
				}
			}
		}
	}
	return out
}
