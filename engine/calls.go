package main

import (
	"fmt"
	"go/token"
	"go/types"
	"math/bits"
	"sort"
	"strconv"
	"strings"

	"golang.org/x/tools/go/ssa"
)

const maxInlineBlocks = 70
const maxInlineDepth = 4

func (f *Frame) argVals(cc *ssa.CallCommon) []Val {
	var out []Val
	for _, a := range cc.Args {
		out = append(out, f.val(a))
	}
	return out
}

func (f *Frame) call(cc *ssa.CallCommon, in ssa.Instruction, resType types.Type) Val {
	tr := f.tr
	if b, ok := cc.Value.(*ssa.Builtin); ok {
		if tr.contract != nil && len(tr.contract.AtCalls) > 0 {
			f.atCallAsserts(cc, in, b.Name(), f.argVals(cc))
		}
		return f.builtin(b, cc, in, resType)
	}
	args := f.argVals(cc)
	var key string
	var callee *ssa.Function
	var bindings []Val
	sig := cc.Signature()
	display := shortCalleeName(cc)
	if cc.IsInvoke() {
		recv := f.val(cc.Value)
		f.safety("no-nil-deref", "(not (= "+recv.T+" 0))", in)
		f.assume("(not (= " + recv.T + " 0))")
		key = cc.Method.FullName()
		// a spec keyed by the static interface type of the receiver takes precedence over the declaring interface
		if k2 := "(" + typeKey(cc.Value.Type()) + ")." + cc.Method.Name(); tr.eng.db.Contracts[k2] != nil {
			key = k2
		}
		args = append([]Val{recv}, args...)
	} else if fn := cc.StaticCallee(); fn != nil {
		key = specialisedKey(tr.eng.db, fn.String(), cc)
		callee = fn
		if _, ok := cc.Value.(*ssa.MakeClosure); ok {
			bindings = f.val(cc.Value).Prov.Bindings
		}
	} else {
		fv := f.val(cc.Value)
		f.safety("no-nil-call", "(not (= "+fv.T+" 0))", in)
		f.assume("(not (= " + fv.T + " 0))")
		if fv.Prov != nil {
			key = fv.Prov.Spec
			callee = fv.Prov.Fn
			bindings = fv.Prov.Bindings
		}
	}
	f.atCallAsserts(cc, in, display, args)
	f.curArgs = args
	f.setPrivacy(cc, callee, bindings)
	defer func() { f.privKeep = false; f.privWrites = nil }()
	// 1. functions defined in the logic
	if v, ok := f.definedCall(key, args, resType); ok {
		return v
	}
	// 2. contract / assumed spec
	if c := tr.eng.db.Contracts[key]; c != nil {
		if c.Kind != "func" {
			tr.note("assumed spec: " + key)
		} else {
			tr.note("callee contract: " + key)
		}
		res := f.applyContract(c, sig, cc.IsInvoke(), args, in, resType, display)
		return res
	}
	// 2b. func value with alternative specs (`maybe p is A|B`): case split on which spec the value conforms to
	if !cc.IsInvoke() && cc.StaticCallee() == nil {
		if fv := f.val(cc.Value); fv.Prov != nil && fv.Prov.Maybe {
			return f.applyMaybeSpecs(fv, strings.Split(fv.Prov.Spec, "|"), sig, args, in, resType, display)
		}
	}
	// 3. inline in-module bodies and closures
	if callee != nil && len(callee.Blocks) > 0 && (tr.eng.inModule(callee) || callee.Parent() != nil) {
		onStack := false
		for _, s := range f.stack {
			if s == callee {
				onStack = true
			}
		}
		if !onStack && f.depth < maxInlineDepth && len(callee.Blocks) <= maxInlineBlocks {
			return f.inline(callee, args, bindings, resType)
		}
		// too large / recursive: havoc what a static effect summary of the body (transitively) allows
		ef := &effects{heaps: map[string]bool{}, ghosts: map[string]bool{}}
		tr.bodyEffectsInto(callee, ef, 1, map[*ssa.Function]bool{callee: true})
		if ef.allGhost {
			tr.note("havoc(all heaps+ghost): in-module callee without contract not inlined: " + callee.String())
			f.havocHeaps(nil, true, in, key)
			f.havocGhosts(nil, true)
		} else {
			tr.note("havoc(all heaps, ghosts per static effect summary): in-module callee without contract not inlined: " + callee.String())
			f.havocHeaps(nil, true, in, key)
			var gs []string
			for g := range ef.ghosts {
				gs = append(gs, g)
			}
			sort.Strings(gs)
			f.havocGhosts(gs, false)
		}
		return tr.freshVal(resType, "call/"+display)
	}
	// 4. unknown / external: havoc
	if key == "" {
		key = "dynamic call " + display + " in " + f.fn.String()
	}
	if argsCarryEffects(args) {
		tr.note("havoc(all heaps): callee without contract: " + key)
		f.havocHeaps(nil, true, in, key)
		f.havocInvalidatedGhosts()
	} else {
		tr.note("effect-free (scalar arguments only): callee without contract: " + key)
	}
	return tr.freshVal(resType, "call/"+display)
}

func argsCarryEffects(args []Val) bool {
	for _, a := range args {
		switch a.K {
		case VRef, VIface, VFunc, VMap, VSlice, VOpaque:
			return true
		case VStruct, VTuple:
			if argsCarryEffects(a.Fs) {
				return true
			}
		}
	}
	return false
}

func (f *Frame) havocGhosts(names []string, all bool) {
	tr := f.tr
	if all {
		names = tr.eng.db.GhostOrder
	}
	for _, g := range names {
		gd := tr.eng.db.Ghosts[g]
		if gd == nil {
			tr.errorf("unknown ghost %q", g)
			continue
		}
		srt := ghostSort(gd.Sort)
		tr.stateGet(f.cur.St, "G/"+g, srt)
		f.cur.St.H["G/"+g] = tr.freshConst("gh/"+g, srt)
	}
}

// havocInvalidatedGhosts resets ghost map entries declared `invalidated_by T` for every argument of the current call
// that is a *T. Assumption (listed in evidence): a callee without a precise frame writes a T object only if it is
// handed that object directly.
func (f *Frame) havocInvalidatedGhosts() {
	tr := f.tr
	for _, gn := range tr.eng.db.GhostOrder {
		g := tr.eng.db.Ghosts[gn]
		if g.InvalidatedBy == "" {
			continue
		}
		for _, a := range f.curArgs {
			pt := pointee0(a.Typ)
			if a.K != VRef || pt == nil || typeKey(pt) != g.InvalidatedBy {
				continue
			}
			srt := ghostSort(g.Sort)
			cur := tr.stateGet(f.cur.St, "G/"+g.Name, srt)
			tr.stateSet(f.cur.St, "G/"+g.Name, srt, tr.define("ginv", srt, sSto(cur, a.T, ghostDefault(g.Sort))))
			tr.note("ghost " + g.Name + " is invalidated only for " + g.InvalidatedBy + " objects handed to a callee directly")
		}
	}
}

func pointee0(t types.Type) types.Type {
	if t == nil {
		return nil
	}
	return pointee(t)
}

func (f *Frame) inline(callee *ssa.Function, args, bindings []Val, resType types.Type) Val {
	tr := f.tr
	nf := tr.newFrame(callee, f)
	nf.guard = f.guard
	for _, b := range callee.Blocks {
		for i, in := range b.Instrs {
			if _, ok := in.(*ssa.Defer); ok {
				tr.stateSet(f.cur.St, fmt.Sprintf("D/%d/%d.%d", nf.act, b.Index, i), "Bool", "false")
			}
		}
	}
	rets := nf.run(f.cur, args, bindings)
	if len(rets) == 0 {
		f.cur = PP{R: "false", St: f.cur.St}
		return tr.freshVal(resType, "noret")
	}
	var pps []PP
	for _, r := range rets {
		pps = append(pps, r.pp)
	}
	// name each return reach so that value merges can refer to it
	f.cur = tr.join(pps, "ret_"+callee.Name())
	n := 0
	if tu, ok := resType.(*types.Tuple); ok {
		n = tu.Len()
		if n == 0 {
			return Val{K: VTuple, Typ: resType}
		}
		out := Val{K: VTuple, Typ: resType}
		for i := 0; i < n; i++ {
			var vs []Val
			for _, r := range rets {
				vs = append(vs, r.results[i])
			}
			out.Fs = append(out.Fs, tr.joinVals(pps, vs, "ret"))
		}
		return out
	}
	var vs []Val
	for _, r := range rets {
		if len(r.results) > 0 {
			vs = append(vs, r.results[0])
		}
	}
	if len(vs) != len(rets) {
		return tr.freshVal(resType, "ret")
	}
	return tr.joinVals(pps, vs, "ret")
}

func sigNames(sig *types.Signature, invoke bool) (params []string, results []string) {
	if sig.Recv() != nil {
		n := sig.Recv().Name()
		if n == "" || n == "_" {
			n = "recv"
		}
		params = append(params, n)
	} else if invoke {
		params = append(params, "recv")
	}
	for i := 0; i < sig.Params().Len(); i++ {
		n := sig.Params().At(i).Name()
		if n == "" || n == "_" {
			n = fmt.Sprintf("arg%d", i)
		}
		params = append(params, n)
	}
	for i := 0; i < sig.Results().Len(); i++ {
		n := sig.Results().At(i).Name()
		if n == "" || n == "_" {
			n = fmt.Sprintf("result%d", i)
		}
		results = append(results, n)
	}
	return
}

func isErrorType(t types.Type) bool {
	return types.Identical(t, types.Universe.Lookup("error").Type())
}

// bindContractEnv builds the expression environment for contract c applied to args/results.
func (f *Frame) bindContractEnv(c *Contract, sig *types.Signature, invoke bool, args []Val, results []Val) *Env {
	env := &Env{f: f, vars: map[string]Val{}, cur: f.cur.St, old: f.cur.St}
	pn, rn := sigNames(sig, invoke)
	if c.HasNames && len(c.ParamNames) > 0 {
		pn = c.ParamNames
	}
	if c.HasNames && len(c.ResultNames) > 0 {
		rn = c.ResultNames
	}
	// a method's static callee has the receiver as first SSA parameter; sig.Recv() covers it
	off := 0
	if len(pn) < len(args) {
		// receiver-less naming for a bound method / closure: pad
		off = len(args) - len(pn)
	}
	for i, a := range args {
		if i-off >= 0 && i-off < len(pn) {
			env.vars[pn[i-off]] = a
		}
	}
	for i, r := range results {
		if i < len(rn) {
			env.vars[rn[i]] = r
		}
		env.vars[fmt.Sprintf("result%d", i)] = r
	}
	if len(results) == 1 {
		if _, ok := env.vars["result"]; !ok {
			env.vars["result"] = results[0]
		}
	}
	if n := len(results); n > 0 && isErrorType(sig.Results().At(n-1).Type()) {
		if _, ok := env.vars["err"]; !ok {
			env.vars["err"] = results[n-1]
		}
	}
	return env
}

func (f *Frame) applyContract(c *Contract, sig *types.Signature, invoke bool, args []Val, in ssa.Instruction, resType types.Type, display string) Val {
	tr := f.tr
	env := f.bindContractEnv(c, sig, invoke, args, nil)
	for i, cl := range c.Requires {
		t, err := env.boolExpr(cl.E)
		if err != nil {
			tr.errorf("%s: requires of %s: %v", f.fn.Name(), c.Key, err)
			continue
		}
		lbl := cl.Label
		if lbl == "" {
			lbl = fmt.Sprintf("req%d", i+1)
		}
		sigs := "at call"
		if in != nil {
			sigs = f.siteSigInstr(in)
		}
		for _, cj := range env.conjuncts(cl.E) {
			ct, err := env.boolExpr(cj)
			if err != nil {
				continue
			}
			f.addSiteW(cl.Prop, "pre."+display+"."+lbl, "precondition", cl.Src, sigs+" :: "+cj.String(), sAnd(f.cur.R, sNot(ct)), "precondition of "+c.Key)
		}
		f.assume(t)
	}
	old := f.cur.St.clone()
	// results
	var results []Val
	var res Val
	if tu, ok := resType.(*types.Tuple); ok {
		res = Val{K: VTuple, Typ: resType}
		for i := 0; i < tu.Len(); i++ {
			v := tr.freshVal(tu.At(i).Type(), "r/"+display)
			results = append(results, v)
		}
		res.Fs = results
	} else if resType != nil {
		res = tr.freshVal(resType, "r/"+display)
		results = []Val{res}
	}
	// result specs (func-typed results)
	_, rn := sigNames(sig, invoke)
	if c.HasNames && len(c.ResultNames) > 0 {
		rn = c.ResultNames
	}
	for i := range results {
		names := []string{fmt.Sprintf("result%d", i)}
		if i < len(rn) && rn[i] != "" {
			names = append(names, rn[i])
		}
		for _, n := range names {
			if sp, ok := c.ResultSpecs[n]; ok {
				results[i].Prov = &FuncProv{Spec: sp}
			}
			// `maybe r is A|B`: the returned func value satisfies a named spec only where conforms(r, Spec) is known
			if sp, ok := c.MaybeSpecs[n]; ok && results[i].K == VFunc {
				results[i].Prov = &FuncProv{Spec: sp, Maybe: true}
			}
		}
	}
	if res.K == VTuple {
		res.Fs = results
	} else if len(results) == 1 {
		res = results[0]
	}
	for _, r := range results {
		f.constrainFreshRef(r, in)
	}
	f.adoptFresh(c, rn, results, in)
	envM := f.bindContractEnv(c, sig, invoke, args, results)
	f.applyModifies(c, envM, in)
	if c.Kind == "func" {
		// history ghosts carry no frame obligations, so a function under contract may have changed them
		var nf []string
		for _, gn := range tr.eng.db.GhostOrder {
			if tr.eng.db.Ghosts[gn].NoFrame {
				nf = append(nf, gn)
			}
		}
		if len(nf) > 0 {
			f.havocGhosts(nf, false)
		}
	}
	env2 := f.bindContractEnv(c, sig, invoke, args, results)
	env2.old = old
	env2.cur = f.cur.St
	for _, cl := range c.Ensures {
		// postconditions tagged with another property are not needed for this one (dropping assumptions is sound)
		if tr.prop != "" && cl.Prop != "" && cl.Prop != tr.prop && !containsStr(cl.Also, tr.prop) {
			continue
		}
		t, err := env2.boolExpr(cl.E)
		if err != nil {
			if c.Kind == "func" && strings.Contains(err.Error(), "unknown identifier") {
				// a postcondition over the callee's own local variables is internal to the callee (a typo would have
				// failed where the callee itself is verified); callers learn nothing from it
				tr.note("internal postcondition of " + c.Key + " not used at call sites: " + cl.Label)
				continue
			}
			tr.errorf("%s: ensures of %s: %v", f.fn.Name(), c.Key, err)
			continue
		}
		f.assume(t)
	}
	return res
}

// applyModifies havocs what the contract declares.
func (f *Frame) applyModifies(c *Contract, env *Env, in ssa.Instruction) {
	tr := f.tr
	if c.ModAll {
		f.havocHeaps(nil, true, in, c.Key)
		f.havocInvalidatedGhosts()
	}
	for _, m := range c.Modifies {
		if strings.HasPrefix(m, "F/") || strings.HasPrefix(m, "C/") {
			if _, ok := tr.sorts[m]; !ok {
				continue
			}
			f.havocHeaps([]string{m}, false, in, c.Key)
			continue
		}
		e, err := ParseExpr(m)
		if err != nil {
			tr.errorf("modifies %q of %s: %v", m, c.Key, err)
			continue
		}
		if err := f.havocLval(e, env); err != nil {
			tr.errorf("modifies %q of %s: %v", m, c.Key, err)
		}
	}
}

func (f *Frame) havocLval(e *Expr, env *Env) error {
	tr := f.tr
	st := f.cur.St
	switch e.K {
	case EIdent:
		if g := tr.eng.db.Ghosts[e.Name]; g != nil {
			f.havocGhosts([]string{e.Name}, false)
			return nil
		}
		return fmt.Errorf("not a ghost variable: %s", e.Name)
	case EIndex:
		if e.A.K == EIdent {
			if g := tr.eng.db.Ghosts[e.A.Name]; g != nil {
				k, err := env.expr(e.Bx)
				if err != nil {
					return err
				}
				srt := ghostSort(g.Sort)
				cur := tr.stateGet(st, "G/"+g.Name, srt)
				elem := ghostElemSort(g.Sort)
				tr.stateSet(st, "G/"+g.Name, srt, tr.define("gm", srt, sSto(cur, k.T, tr.freshConst("gv/"+g.Name, elem))))
				return nil
			}
		}
		return fmt.Errorf("unsupported modifies target %s", e)
	case ECall:
		if e.Name == "deref" && len(e.Args) == 1 {
			p, err := env.expr(e.Args[0])
			if err != nil {
				return err
			}
			pt := pointee(p.Typ)
			if pt == nil {
				return fmt.Errorf("deref of non-pointer %s", e.Args[0])
			}
			tr.store(st, pt, p.T, tr.freshVal(pt, "mod"))
			return nil
		}
		if e.Name == "fields" && len(e.Args) == 1 {
			p, err := env.expr(e.Args[0])
			if err != nil {
				return err
			}
			pt := pointee(p.Typ)
			if pt == nil {
				return fmt.Errorf("fields of non-pointer %s", e.Args[0])
			}
			tr.store(st, pt, p.T, tr.freshVal(pt, "mod"))
			return nil
		}
		return fmt.Errorf("unsupported modifies target %s", e)
	case ESel:
		base, err := env.expr(e.A)
		if err != nil {
			return err
		}
		pt := pointee(base.Typ)
		if pt == nil {
			return fmt.Errorf("modifies %s: base is not a pointer", e)
		}
		s, ok := pt.Underlying().(*types.Struct)
		if !ok {
			return fmt.Errorf("modifies %s: base does not point to a struct", e)
		}
		for i := 0; i < s.NumFields(); i++ {
			if s.Field(i).Name() == e.Name {
				tr.storeField(st, pt, s.Field(i), base.T, tr.freshVal(s.Field(i).Type(), "mod"))
				tr.invalidateGhosts(st, pt, base.T)
				return nil
			}
		}
		return fmt.Errorf("modifies %s: no such field", e)
	}
	return fmt.Errorf("unsupported modifies target %s", e)
}

func ghostElemSort(s string) string {
	switch {
	case strings.HasSuffix(s, "]bool"):
		return "Bool"
	case strings.HasSuffix(s, "]string"):
		return "String"
	}
	return "Int"
}

func (f *Frame) deferInstr(x *ssa.Defer) {
	tr := f.tr
	if _, inLoop := f.inAnyLoop(x.Block()); inLoop {
		tr.errorf("%s: defer inside a loop is outside the supported subset", f.fn.Name())
	}
	idx := 0
	for i, in := range x.Block().Instrs {
		if in == x {
			idx = i
		}
	}
	flag := fmt.Sprintf("D/%d/%d.%d", f.act, x.Block().Index, idx)
	rec := &deferRec{instr: x, flag: flag}
	if !x.Call.IsInvoke() {
		if _, ok := x.Call.Value.(*ssa.Builtin); !ok {
			rec.fnVal = f.val(x.Call.Value)
		}
	} else {
		rec.fnVal = f.val(x.Call.Value)
	}
	rec.args = f.argVals(&x.Call)
	f.defers = append(f.defers, rec)
	tr.stateSet(f.cur.St, flag, "Bool", "true")
}

func (f *Frame) inAnyLoop(b *ssa.BasicBlock) (*loopInfo, bool) {
	for _, li := range f.loops {
		if li.body[b.Index] {
			return li, true
		}
	}
	return nil, false
}

func (f *Frame) runDefers(x *ssa.RunDefers) {
	tr := f.tr
	for i := len(f.defers) - 1; i >= 0; i-- {
		rec := f.defers[i]
		g := tr.stateGet(f.cur.St, rec.flag, "Bool")
		if g == "false" {
			continue
		}
		// values captured at the defer site are registered under the instruction's operands already
		before := PP{R: f.cur.R, St: f.cur.St.clone()}
		if g != "true" {
			f.cur.R = tr.define("R", "Bool", sAnd(f.cur.R, g))
		}
		f.cur.St.H[rec.flag] = "false"
		f.call(&rec.instr.Call, rec.instr, types.NewTuple())
		if g != "true" {
			after := f.cur
			f.cur = tr.join([]PP{{R: tr.define("R", "Bool", sAnd(before.R, sNot(g))), St: before.St}, after}, "defer")
		}
	}
}

func (f *Frame) goInstr(x *ssa.Go) {
	tr := f.tr
	key := ""
	if fn := x.Call.StaticCallee(); fn != nil {
		key = fn.String()
	}
	if c := tr.eng.db.Contracts[key]; c != nil && c.Thread {
		env := f.bindContractEnv(c, x.Call.Signature(), false, f.argVals(&x.Call), nil)
		if mc, ok := x.Call.Value.(*ssa.MakeClosure); ok {
			cf := mc.Fn.(*ssa.Function)
			for i, b := range mc.Bindings {
				if i < len(cf.FreeVars) {
					bindFreeVar(tr, env, cf.FreeVars[i], f.val(b))
				}
			}
		}
		for i, cl := range c.Requires {
			for _, cj := range env.conjuncts(cl.E) {
				ct, err := env.boolExpr(cj)
				if err != nil {
					tr.errorf("%s: requires of thread %s: %v", f.fn.Name(), key, err)
					continue
				}
				lbl := cl.Label
				if lbl == "" {
					lbl = fmt.Sprintf("req%d", i+1)
				}
				f.addSiteW(cl.Prop, "pre.go."+shortCalleeName(&x.Call)+"."+lbl, "precondition", cl.Src, f.siteSigInstr(x)+" :: "+cj.String(), sAnd(f.cur.R, sNot(ct)), "precondition of goroutine "+key)
			}
		}
		if fn := x.Call.StaticCallee(); fn != nil {
			ef := &effects{heaps: map[string]bool{}, ghosts: map[string]bool{}}
			tr.bodyEffectsInto(fn, ef, 1, map[*ssa.Function]bool{fn: true})
			f.privKeep = !ef.privAll
			f.privWrites = ef.heaps
		}
		f.applyModifies(c, env, x)
		f.privKeep, f.privWrites = false, nil
		tr.note("goroutine with thread contract: " + key)
		return
	}
	tr.note("havoc(all heaps+ghost): goroutine without thread contract started in " + f.fn.String())
	f.havocHeaps(nil, true, x, "go")
	f.havocGhosts(nil, true)
}

// ---- builtins ----

func (f *Frame) builtin(b *ssa.Builtin, cc *ssa.CallCommon, in ssa.Instruction, resType types.Type) Val {
	tr := f.tr
	args := f.argVals(cc)
	switch b.Name() {
	case "len":
		a := args[0]
		switch a.K {
		case VSlice:
			return Val{K: VInt, T: a.Len, Typ: resType}
		case VStr:
			return Val{K: VInt, T: "(str.len " + a.T + ")", Typ: resType}
		case VMap:
			fn := tr.declareFun("maplen", []string{"Int", "Int"}, "Int")
			_ = fn
			v := tr.freshVal(resType, "maplen")
			tr.fact("(>= " + v.T + " 0)")
			return v
		}
		v := tr.freshVal(resType, "len")
		tr.fact("(>= " + v.T + " 0)")
		return v
	case "cap":
		v := tr.freshVal(resType, "cap")
		if args[0].K == VSlice {
			tr.fact("(>= " + v.T + " " + "0)")
		}
		return v
	case "append":
		return f.appendBuiltin(cc, args, resType)
	case "copy":
		// destination elements change: havoc cell heap of the element type
		if st, ok := cc.Args[0].Type().Underlying().(*types.Slice); ok {
			f.havocElemHeaps(st.Elem(), in)
		}
		v := tr.freshVal(resType, "copy")
		if args[0].K == VSlice {
			var sl string
			switch args[1].K {
			case VSlice:
				sl = args[1].Len
			case VStr:
				sl = "(str.len " + args[1].T + ")"
			}
			if sl != "" {
				tr.fact(sEq(v.T, sIte("(<= "+args[0].Len+" "+sl+")", args[0].Len, sl)))
			}
		}
		return v
	case "delete":
		f.mapDelete(cc, args)
		return Val{K: VTuple}
	case "print", "println", "close", "clear":
		return Val{K: VTuple}
	case "recover":
		return tr.freshVal(resType, "recover")
	case "min", "max":
		return tr.freshVal(resType, b.Name())
	}
	tr.errorf("%s: unsupported builtin %s", f.fn.Name(), b.Name())
	return tr.freshVal(resType, "builtin")
}

func (f *Frame) havocElemHeaps(elem types.Type, in ssa.Instruction) {
	var names []string
	switch kindOf(elem) {
	case VStruct:
		s := elem.Underlying().(*types.Struct)
		for i := 0; i < s.NumFields(); i++ {
			names = append(names, fieldHeapName(elem, s.Field(i).Name()))
		}
	default:
		names = append(names, "C/"+typeKey(elem))
	}
	var known []string
	for _, n := range names {
		if _, ok := f.tr.sorts[n]; ok {
			known = append(known, n)
		}
	}
	f.havocHeaps(known, false, in, "copy")
}

func (f *Frame) appendBuiltin(cc *ssa.CallCommon, args []Val, resType types.Type) Val {
	tr := f.tr
	s, t := args[0], args[1]
	tr.nalloc++
	nb := sInt(int64(-tr.nalloc))
	var tlen string
	if t.K == VSlice {
		tlen = t.Len
	} else if t.K == VStr {
		tlen = "(str.len " + t.T + ")"
	} else {
		tlen = tr.freshConst("tlen", "Int")
	}
	res := Val{K: VSlice, T: nb, Len: tr.define("alen", "Int", "(+ "+s.Len+" "+tlen+")"), Typ: resType}
	elemT := resType.Underlying().(*types.Slice).Elem()
	ek := kindOf(elemT)
	st := f.cur.St
	if ek == VStruct || ek == VSlice || ek == VOpaque || ek == VTuple {
		if ek == VStruct {
			// element-wise facts per field, for the appended elements with statically known count
			if k, ok := constSliceLen(cc.Args[1]); ok {
				for j := int64(0); j < k; j++ {
					src := tr.elemRef(t.T, sInt(j))
					dst := tr.elemRef(nb, "(+ "+s.Len+" "+sInt(j)+")")
					v := tr.load(st, elemT, src)
					f.assumeLoc(elemT, dst, v)
				}
				if f.tr.wantElems() {
					f.assumeCopyStruct(elemT, nb, s.T, s.Len)
				}
			}
		}
		return res
	}
	hn := "C/" + typeKey(elemT)
	srt := arrSort(kindSort(ek))
	h := tr.stateGet(st, hn, srt)
	// copied prefix (quantified fact about the fresh base) — only for functions whose contract asks for element tracking
	q := tr.fresh("!q")
	qi := sym(q)
	if tr.wantElems() {
		f.assume(fmt.Sprintf("(forall ((%s Int)) (! (=> (and (<= 0 %s) (< %s %s)) (= (select %s (%s %s %s)) (select %s (%s %s %s)))) :pattern ((%s %s %s))))",
			qi, qi, qi, s.Len, h, sym("elem"), nb, qi, h, sym("elem"), s.T, qi, sym("elem"), nb, qi))
	}
	tr.elemRef(nb, "0") // make sure elem is declared
	if k, ok := constSliceLen(cc.Args[1]); ok {
		for j := int64(0); j < k; j++ {
			src := tr.elemRef(t.T, sInt(j))
			dst := tr.elemRef(nb, "(+ "+s.Len+" "+sInt(j)+")")
			f.assume(sEq(sSel(h, dst), sSel(h, src)))
		}
	} else if t.K == VSlice && tr.wantElems() {
		q2 := sym(tr.fresh("!q"))
		f.assume(fmt.Sprintf("(forall ((%s Int)) (! (=> (and (<= 0 %s) (< %s %s)) (= (select %s (%s %s (+ %s %s))) (select %s (%s %s %s)))) :pattern ((%s %s %s))))",
			q2, q2, q2, t.Len, h, sym("elem"), nb, s.Len, q2, h, sym("elem"), t.T, q2, sym("elem"), t.T, q2))
	}
	return res
}

// assumeLoc assumes that the current heap holds value v (of type t) at the fresh address ref.
func (f *Frame) assumeLoc(t types.Type, ref string, v Val) {
	tr := f.tr
	cur := tr.load(f.cur.St, t, ref)
	f.assume(valEq(cur, v))
}

func (f *Frame) assumeCopyStruct(elemT types.Type, nb, sb, slen string) {
	tr := f.tr
	st := f.cur.St
	s := elemT.Underlying().(*types.Struct)
	q := sym(tr.fresh("!q"))
	var eqs []string
	for i := 0; i < s.NumFields(); i++ {
		fl := s.Field(i)
		k := kindOf(fl.Type())
		if k == VStruct || k == VSlice || k == VOpaque {
			continue
		}
		h := tr.stateGet(st, fieldHeapName(elemT, fl.Name()), arrSort(kindSort(k)))
		eqs = append(eqs, fmt.Sprintf("(= (select %s (%s %s %s)) (select %s (%s %s %s)))", h, sym("elem"), nb, q, h, sym("elem"), sb, q))
	}
	if len(eqs) == 0 {
		return
	}
	tr.elemRef(nb, "0")
	f.assume(fmt.Sprintf("(forall ((%s Int)) (! (=> (and (<= 0 %s) (< %s %s)) %s) :pattern ((%s %s %s))))", q, q, q, slen, sAnd(eqs...), sym("elem"), nb, q))
}

func valEq(a, b Val) string {
	switch a.K {
	case VStruct, VTuple:
		var eqs []string
		for i := range a.Fs {
			if i < len(b.Fs) {
				eqs = append(eqs, valEq(a.Fs[i], b.Fs[i]))
			}
		}
		return sAnd(eqs...)
	case VSlice:
		return sAnd(sEq(a.T, b.T), sEq(a.Len, b.Len))
	}
	if a.sort() != b.sort() {
		return "true"
	}
	return sEq(a.T, b.T)
}

func constSliceLen(v ssa.Value) (int64, bool) {
	if sl, ok := v.(*ssa.Slice); ok && sl.Low == nil && sl.High == nil {
		if a, ok := sl.X.(*ssa.Alloc); ok {
			if at, ok := pointee(a.Type()).Underlying().(*types.Array); ok {
				return at.Len(), true
			}
		}
	}
	return 0, false
}

func (f *Frame) sliceInstr(x *ssa.Slice) {
	tr := f.tr
	base := f.val(x.X)
	switch base.K {
	case VStr:
		lo := "0"
		if x.Low != nil {
			lo = f.val(x.Low).T
		}
		hi := "(str.len " + base.T + ")"
		if x.High != nil {
			hi = f.val(x.High).T
		}
		f.safety("index-in-range", sAnd("(<= 0 "+lo+")", "(<= "+lo+" "+hi+")", "(<= "+hi+" (str.len "+base.T+"))"), x)
		f.vals[x] = Val{K: VStr, T: "(str.substr " + base.T + " " + lo + " (- " + hi + " " + lo + "))", Typ: x.Type()}
		return
	case VSlice:
		lo := "0"
		if x.Low != nil {
			lo = f.val(x.Low).T
		}
		hi := base.Len
		if x.High != nil {
			hi = f.val(x.High).T
			// high bound is checked against capacity, which is not modelled; only lo <= hi and 0 <= lo
			f.safety("index-in-range", sAnd("(<= 0 "+lo+")", "(<= "+lo+" "+hi+")"), x)
		} else {
			f.safety("index-in-range", sAnd("(<= 0 "+lo+")", "(<= "+lo+" "+hi+")"), x)
		}
		if lo == "0" {
			f.vals[x] = Val{K: VSlice, T: base.T, Len: hi, Typ: x.Type()}
		} else {
			nb := tr.freshConst("subslice", "Int")
			f.vals[x] = Val{K: VSlice, T: nb, Len: tr.define("sl", "Int", "(- "+hi+" "+lo+")"), Typ: x.Type()}
		}
		return
	}
	// pointer to array
	if at, ok := pointee(x.X.Type()).Underlying().(*types.Array); ok {
		lo := "0"
		if x.Low != nil {
			lo = f.val(x.Low).T
		}
		hi := sInt(at.Len())
		if x.High != nil {
			hi = f.val(x.High).T
		}
		if lo == "0" {
			f.vals[x] = Val{K: VSlice, T: base.T, Len: hi, Typ: x.Type()}
		} else {
			f.vals[x] = Val{K: VSlice, T: tr.freshConst("subslice", "Int"), Len: "(- " + hi + " " + lo + ")", Typ: x.Type()}
		}
		return
	}
	f.vals[x] = tr.freshVal(x.Type(), "slice")
}

// ---- conversions, operators ----

func (f *Frame) convert(v Val, from, to types.Type) Val {
	tr := f.tr
	fk, tk := kindOf(from), kindOf(to)
	switch {
	case fk == VInt && tk == VInt:
		tr.note("machine integers treated as mathematical (conversions are identity)")
		return Val{K: VInt, T: v.T, Typ: to}
	case fk == VInt && tk == VReal:
		return Val{K: VReal, T: "(to_real " + v.T + ")", Typ: to}
	case fk == VReal && tk == VInt:
		return Val{K: VInt, T: tr.define("trunc", "Int", "(ite (>= "+v.T+" 0.0) (to_int "+v.T+") (- (to_int (- "+v.T+"))))"), Typ: to}
	case fk == VReal && tk == VReal:
		return Val{K: VReal, T: v.T, Typ: to}
	case fk == VStr && tk == VStr:
		return Val{K: VStr, T: v.T, Typ: to}
	case fk == VRef && tk == VRef:
		return Val{K: VRef, T: v.T, Typ: to}
	case fk == VSlice && tk == VStr:
		// string(bytes): the content of the byte slice as recorded by bytesStr (assumption: byte slices are not mutated
		// between the point they were filled and the point they are converted)
		bs := tr.declareFun("uf/bytesStr", []string{"Int"}, "String")
		tr.note("byte slice contents are tracked by an uninterpreted function of the slice base (slices not mutated in place)")
		return Val{K: VStr, T: "(" + bs + " " + v.T + ")", Typ: to}
	case fk == VStr && tk == VSlice:
		nv := tr.freshVal(to, "str2bytes")
		bs := tr.declareFun("uf/bytesStr", []string{"Int"}, "String")
		tr.fact(sEq("("+bs+" "+nv.T+")", v.T))
		tr.fact(sEq(nv.Len, "(str.len "+v.T+")"))
		return nv
	}
	return tr.freshVal(to, "convert")
}

func goDiv(a, b string) string {
	// truncated division
	return "(ite (>= " + a + " 0) (ite (> " + b + " 0) (div " + a + " " + b + ") (- (div " + a + " (- " + b + ")))) (ite (> " + b + " 0) (- (div (- " + a + ") " + b + ")) (div (- " + a + ") (- " + b + "))))"
}

func maskAnd(x string, c uint64) string {
	if c == 0 {
		return "0"
	}
	// contiguous low mask 2^k-1
	if c&(c+1) == 0 {
		return "(mod " + x + " " + strconv.FormatUint(c+1, 10) + ")"
	}
	var terms []string
	for c != 0 {
		k := bits.TrailingZeros64(c)
		p := strconv.FormatUint(1<<uint(k), 10)
		terms = append(terms, "(* "+p+" (mod (div "+x+" "+p+") 2))")
		c &^= 1 << uint(k)
	}
	if len(terms) == 1 {
		return terms[0]
	}
	return "(+ " + strings.Join(terms, " ") + ")"
}

func constUint(t string) (uint64, bool) {
	n, err := strconv.ParseUint(t, 10, 63)
	return n, err == nil
}

func (f *Frame) binop(x *ssa.BinOp) Val {
	tr := f.tr
	a, b := f.val(x.X), f.val(x.Y)
	rt := x.Type()
	rk := kindOf(rt)
	switch x.Op {
	case token.EQL, token.NEQ:
		var eq string
		if (a.K == VStruct || a.K == VSlice) && a.K == b.K {
			eq = valEq(a, b)
		} else if a.sort() == b.sort() {
			eq = sEq(a.T, b.T)
		} else {
			eq = tr.freshConst("cmp", "Bool")
		}
		if x.Op == token.NEQ {
			eq = sNot(eq)
		}
		return Val{K: VBool, T: eq, Typ: rt}
	case token.LSS, token.LEQ, token.GTR, token.GEQ:
		op := map[token.Token]string{token.LSS: "<", token.LEQ: "<=", token.GTR: ">", token.GEQ: ">="}[x.Op]
		if a.K == VStr {
			switch x.Op {
			case token.LSS:
				return Val{K: VBool, T: "(str.< " + a.T + " " + b.T + ")", Typ: rt}
			case token.LEQ:
				return Val{K: VBool, T: "(str.<= " + a.T + " " + b.T + ")", Typ: rt}
			case token.GTR:
				return Val{K: VBool, T: "(str.< " + b.T + " " + a.T + ")", Typ: rt}
			default:
				return Val{K: VBool, T: "(str.<= " + b.T + " " + a.T + ")", Typ: rt}
			}
		}
		return Val{K: VBool, T: "(" + op + " " + a.T + " " + b.T + ")", Typ: rt}
	case token.ADD:
		if rk == VStr {
			return Val{K: VStr, T: "(str.++ " + a.T + " " + b.T + ")", Typ: rt}
		}
		return Val{K: rk, T: "(+ " + a.T + " " + b.T + ")", Typ: rt}
	case token.SUB:
		return Val{K: rk, T: "(- " + a.T + " " + b.T + ")", Typ: rt}
	case token.MUL:
		return Val{K: rk, T: "(* " + a.T + " " + b.T + ")", Typ: rt}
	case token.QUO:
		if rk == VReal {
			return Val{K: VReal, T: "(/ " + a.T + " " + b.T + ")", Typ: rt}
		}
		f.safety("no-div-by-zero", "(not (= "+b.T+" 0))", x)
		return Val{K: VInt, T: tr.define("quo", "Int", goDiv(a.T, b.T)), Typ: rt}
	case token.REM:
		f.safety("no-div-by-zero", "(not (= "+b.T+" 0))", x)
		q := tr.define("quo", "Int", goDiv(a.T, b.T))
		return Val{K: VInt, T: "(- " + a.T + " (* " + b.T + " " + q + "))", Typ: rt}
	case token.AND:
		if c, ok := constUint(b.T); ok {
			return Val{K: VInt, T: tr.define("band", "Int", maskAnd(a.T, c)), Typ: rt}
		}
		if c, ok := constUint(a.T); ok {
			return Val{K: VInt, T: tr.define("band", "Int", maskAnd(b.T, c)), Typ: rt}
		}
	case token.OR:
		if c, ok := constUint(b.T); ok {
			return Val{K: VInt, T: tr.define("bor", "Int", "(- (+ "+a.T+" "+b.T+") "+maskAnd(a.T, c)+")"), Typ: rt}
		}
		if c, ok := constUint(a.T); ok {
			return Val{K: VInt, T: tr.define("bor", "Int", "(- (+ "+a.T+" "+b.T+") "+maskAnd(b.T, c)+")"), Typ: rt}
		}
	case token.AND_NOT:
		if c, ok := constUint(b.T); ok {
			return Val{K: VInt, T: tr.define("bandnot", "Int", "(- "+a.T+" "+maskAnd(a.T, c)+")"), Typ: rt}
		}
	}
	if rk == VInt {
		fn := tr.declareFun("bitop/"+x.Op.String(), []string{"Int", "Int"}, "Int")
		tr.note("bit operation " + x.Op.String() + " on two symbolic operands is uninterpreted")
		return Val{K: VInt, T: "(" + fn + " " + a.T + " " + b.T + ")", Typ: rt}
	}
	return tr.freshVal(rt, "binop")
}

// ---- interfaces ----

func (tr *Tr) typeID(t types.Type) string {
	return tr.eng.typeID(t)
}

func (f *Frame) makeInterface(v Val, from, to types.Type) Val {
	tr := f.tr
	k := kindOf(from)
	dt := tr.declareFun("dyntype", []string{"Int"}, "Int")
	switch k {
	case VStruct, VSlice, VTuple:
		c := tr.freshConst("iface", "Int")
		tr.fact(sAnd("(> "+c+" 0)", sEq("("+dt+" "+c+")", tr.typeID(from))))
		tr.fact(valEq(tr.unboxed(from, c, ""), v))
		return Val{K: VIface, T: c, Typ: to, Prov: v.Prov}
	}
	box := tr.declareFun("box/"+typeKey(from), []string{kindSort(k)}, "Int")
	unbox := tr.declareFun("unbox/"+typeKey(from), []string{"Int"}, kindSort(k))
	t := "(" + box + " " + v.T + ")"
	key := "boxax:" + t
	if !tr.declared[key] {
		tr.declared[key] = true
		tr.fact(sAnd("(> "+t+" 0)", sEq("("+dt+" "+t+")", tr.typeID(from)), sEq("("+unbox+" "+t+")", v.T)))
		if k == VRef {
			ir := tr.declareFun("ifaceref", []string{"Int"}, "Int")
			tr.fact(sEq("("+ir+" "+t+")", v.T))
		}
	}
	return Val{K: VIface, T: t, Typ: to, Prov: v.Prov}
}

func (f *Frame) typeAssert(x *ssa.TypeAssert) {
	tr := f.tr
	v := f.val(x.X)
	dt := tr.declareFun("dyntype", []string{"Int"}, "Int")
	var ok string
	var res Val
	if _, isIface := x.AssertedType.Underlying().(*types.Interface); isIface {
		impl := tr.declareFun("implements/"+typeKey(x.AssertedType), []string{"Int"}, "Bool")
		ok = sAnd("(not (= "+v.T+" 0))", "("+impl+" ("+dt+" "+v.T+"))")
		res = Val{K: VIface, T: v.T, Typ: x.AssertedType}
	} else {
		ok = sAnd("(not (= "+v.T+" 0))", sEq("("+dt+" "+v.T+")", tr.typeID(x.AssertedType)))
		k := kindOf(x.AssertedType)
		switch k {
		case VStruct, VSlice, VTuple:
			res = tr.unboxed(x.AssertedType, v.T, "")
			res.ID = v.T
		default:
			unbox := tr.declareFun("unbox/"+typeKey(x.AssertedType), []string{"Int"}, kindSort(k))
			res = Val{K: k, T: "(" + unbox + " " + v.T + ")", Typ: x.AssertedType}
		}
	}
	if x.CommaOk {
		okT := tr.define("tok", "Bool", ok)
		f.vals[x] = Val{K: VTuple, Typ: x.Type(), Fs: []Val{res, {K: VBool, T: okT}}}
		return
	}
	f.safety("no-failed-type-assertion", ok, x)
	f.assume(ok)
	f.vals[x] = res
}

// ---- maps ----

func mapSorts(t types.Type) (ks, vs string, ok bool) {
	m, isMap := t.Underlying().(*types.Map)
	if !isMap {
		return "", "", false
	}
	kk, vk := kindOf(m.Key()), kindOf(m.Elem())
	if kk != VStr && kk != VInt {
		return "", "", false
	}
	switch vk {
	case VStruct, VSlice, VTuple, VOpaque:
		return "", "", false
	}
	return kindSort(kk), kindSort(vk), true
}

func mapHeapNames(t types.Type) (string, string) {
	return "M/" + typeKey(t) + "#val", "M/" + typeKey(t) + "#has"
}

func (f *Frame) initMap(t types.Type, ref string) {
	tr := f.tr
	ks, vs, ok := mapSorts(t)
	if !ok {
		return
	}
	_, hn := mapHeapNames(t)
	hs := arrSort("(Array " + ks + " Bool)")
	cur := tr.stateGet(f.cur.St, hn, hs)
	tr.stateSet(f.cur.St, hn, hs, tr.define("mk", hs, sSto(cur, ref, "((as const (Array "+ks+" Bool)) false)")))
	_ = vs
}

func (f *Frame) lookup(x *ssa.Lookup) {
	tr := f.tr
	m := f.val(x.X)
	k := f.val(x.Index)
	if m.K == VStr {
		f.vals[x] = tr.freshVal(x.Type(), "strindex")
		return
	}
	ks, vs, ok := mapSorts(x.X.Type())
	if !ok {
		f.vals[x] = tr.freshVal(x.Type(), "lookup")
		return
	}
	vn, hn := mapHeapNames(x.X.Type())
	hv := tr.stateGet(f.cur.St, vn, arrSort("(Array "+ks+" "+vs+")"))
	hh := tr.stateGet(f.cur.St, hn, arrSort("(Array "+ks+" Bool)"))
	has := sAnd("(not (= "+m.T+" 0))", sSel(sSel(hh, m.T), k.T))
	elemT := x.X.Type().Underlying().(*types.Map).Elem()
	zero := tr.zeroVal(elemT)
	val := Val{K: kindOf(elemT), T: tr.define("mv", vs, sIte(has, sSel(sSel(hv, m.T), k.T), zero.T)), Typ: elemT}
	if x.CommaOk {
		f.vals[x] = Val{K: VTuple, Typ: x.Type(), Fs: []Val{val, {K: VBool, T: tr.define("mh", "Bool", has)}}}
	} else {
		f.vals[x] = val
	}
}

func (f *Frame) mapUpdate(x *ssa.MapUpdate) {
	tr := f.tr
	m := f.val(x.Map)
	k := f.val(x.Key)
	v := f.val(x.Value)
	f.safety("no-nil-map-write", "(not (= "+m.T+" 0))", x)
	f.assume("(not (= " + m.T + " 0))")
	ks, vs, ok := mapSorts(x.Map.Type())
	if !ok {
		return
	}
	vn, hn := mapHeapNames(x.Map.Type())
	sv, sh := arrSort("(Array "+ks+" "+vs+")"), arrSort("(Array "+ks+" Bool)")
	hv := tr.stateGet(f.cur.St, vn, sv)
	hh := tr.stateGet(f.cur.St, hn, sh)
	tr.stateSet(f.cur.St, vn, sv, tr.define("mu", sv, sSto(hv, m.T, sSto(sSel(hv, m.T), k.T, tr.coerce(v, kindOf(x.Map.Type().Underlying().(*types.Map).Elem()))))))
	tr.stateSet(f.cur.St, hn, sh, tr.define("mu", sh, sSto(hh, m.T, sSto(sSel(hh, m.T), k.T, "true"))))
	// ghost maps keyed by the owner are not tracked for map writes
}

func (f *Frame) mapDelete(cc *ssa.CallCommon, args []Val) {
	tr := f.tr
	ks, _, ok := mapSorts(cc.Args[0].Type())
	if !ok {
		return
	}
	_, hn := mapHeapNames(cc.Args[0].Type())
	sh := arrSort("(Array " + ks + " Bool)")
	hh := tr.stateGet(f.cur.St, hn, sh)
	m, k := args[0], args[1]
	tr.stateSet(f.cur.St, hn, sh, tr.define("md", sh, sSto(hh, m.T, sSto(sSel(hh, m.T), k.T, "false"))))
}

// ---- functions defined in the logic ----

func (f *Frame) definedCall(key string, args []Val, resType types.Type) (Val, bool) {
	tr := f.tr
	b := func(t string) (Val, bool) { return Val{K: VBool, T: t, Typ: resType}, true }
	s := func(t string) (Val, bool) { return Val{K: VStr, T: tr.define("s", "String", t), Typ: resType}, true }
	switch key {
	case "strings.HasPrefix":
		return b("(str.prefixof " + args[1].T + " " + args[0].T + ")")
	case "strings.HasSuffix":
		return b("(str.suffixof " + args[1].T + " " + args[0].T + ")")
	case "strings.Contains":
		return b("(str.contains " + args[0].T + " " + args[1].T + ")")
	case "strings.TrimPrefix":
		x, p := args[0].T, args[1].T
		return s("(ite (str.prefixof " + p + " " + x + ") (str.substr " + x + " (str.len " + p + ") (- (str.len " + x + ") (str.len " + p + "))) " + x + ")")
	case "strings.TrimSuffix":
		x, p := args[0].T, args[1].T
		return s("(ite (str.suffixof " + p + " " + x + ") (str.substr " + x + " 0 (- (str.len " + x + ") (str.len " + p + "))) " + x + ")")
	case "path/filepath.ToSlash", "path/filepath.FromSlash":
		tr.note("filepath.ToSlash/FromSlash treated as identity (non-Windows)")
		return Val{K: VStr, T: args[0].T, Typ: resType}, true
	case "path.IsAbs", "path/filepath.IsAbs":
		return b("(str.prefixof \"/\" " + args[0].T + ")")
	case "math.Ceil":
		x := args[0].T
		return Val{K: VReal, T: tr.define("ceil", "Real", "(- (to_real (to_int (- "+x+"))))"), Typ: resType}, true
	case "math.Floor":
		x := args[0].T
		return Val{K: VReal, T: tr.define("floor", "Real", "(to_real (to_int "+x+"))"), Typ: resType}, true
	case "context.Background", "context.TODO":
		c := tr.declare("context.Background", "Int")
		return Val{K: VIface, T: c, Typ: resType}, true
	case "errors.Is":
		// errors.Is(e, target): e == target or wraps(e, target)
		w := tr.declareFun("wraps", []string{"Int", "Int"}, "Bool")
		return b(sOr(sEq(args[0].T, args[1].T), sAnd("(not (= "+args[0].T+" 0))", "("+w+" "+args[0].T+" "+args[1].T+")")))
	}
	return Val{}, false
}

// ---- engine-level helpers ----

func (e *Engine) typeID(t types.Type) string {
	k := typeKey(t)
	if id, ok := e.typeIDs[k]; ok {
		return strconv.Itoa(id)
	}
	id := len(e.typeIDs) + 1
	e.typeIDs[k] = id
	return strconv.Itoa(id)
}

func (e *Engine) noteErrGlobal(tr *Tr, c string) {
	key := "errglob:" + c
	if tr.declared[key] {
		return
	}
	tr.declared[key] = true
	tr.fact("(> " + c + " 0)")
	// pairwise distinct from previously seen error globals
	var prev []string
	for k := range tr.declared {
		if strings.HasPrefix(k, "errglob:") && k != key {
			prev = append(prev, strings.TrimPrefix(k, "errglob:"))
		}
	}
	sort.Strings(prev)
	for _, p := range prev {
		tr.fact("(not (= " + c + " " + p + "))")
	}
	tr.note("package-level error values are pairwise distinct and non-nil")
}

// ---- static effect summaries (used for loop havoc) ----

type effects struct {
	all      bool // every heap that is not private to the verified package
	privAll  bool // every private heap as well
	heaps    map[string]bool
	ghosts   map[string]bool
	allGhost bool
}

// setAllFor records "this call may write every heap", refined by the privacy rule evaluated at this (leaf) call.
func (tr *Tr) setAllFor(ef *effects, cc *ssa.CallCommon) {
	ef.all = true
	if cc == nil {
		ef.privAll = true
		return
	}
	keep, writes := tr.privacyOf(cc)
	if !keep {
		ef.privAll = true
		return
	}
	for w := range writes {
		ef.heaps[w] = true
	}
}

func (f *Frame) callEffects(cc *ssa.CallCommon) (heaps []string, ghosts []string, allGhost bool, privAll bool) {
	ef := &effects{heaps: map[string]bool{}, ghosts: map[string]bool{}}
	f.tr.callEffectsInto(cc, ef, 0, map[*ssa.Function]bool{})
	for g := range ef.ghosts {
		ghosts = append(ghosts, g)
	}
	sort.Strings(ghosts)
	f.lastEffectHeaps = nil
	for h := range ef.heaps {
		f.lastEffectHeaps = append(f.lastEffectHeaps, h)
	}
	sort.Strings(f.lastEffectHeaps)
	if ef.all {
		return nil, ghosts, ef.allGhost, ef.privAll
	}
	heaps = append([]string{}, f.lastEffectHeaps...)
	return heaps, ghosts, ef.allGhost, false
}

func typeCarriesEffects(t types.Type) bool {
	switch kindOf(t) {
	case VRef, VIface, VFunc, VMap, VSlice, VOpaque:
		return true
	case VStruct:
		s := t.Underlying().(*types.Struct)
		for i := 0; i < s.NumFields(); i++ {
			if typeCarriesEffects(s.Field(i).Type()) {
				return true
			}
		}
	}
	return false
}

func (tr *Tr) invalidatedGhostsInto(ef *effects, cc *ssa.CallCommon) {
	for _, g := range tr.eng.db.GhostOrder {
		ib := tr.eng.db.Ghosts[g].InvalidatedBy
		if ib == "" {
			continue
		}
		hit := cc == nil
		if cc != nil {
			for _, a := range cc.Args {
				if pt := pointee0(a.Type()); pt != nil && typeKey(pt) == ib {
					hit = true
				}
			}
		}
		if hit {
			ef.ghosts[g] = true
		}
	}
}

func (tr *Tr) callEffectsInto(cc *ssa.CallCommon, ef *effects, depth int, visited map[*ssa.Function]bool) {
	if b, ok := cc.Value.(*ssa.Builtin); ok {
		switch b.Name() {
		case "copy", "delete", "clear":
			ef.all = true
		}
		return
	}
	var key string
	var callee *ssa.Function
	if cc.IsInvoke() {
		key = cc.Method.FullName()
		if k2 := "(" + typeKey(cc.Value.Type()) + ")." + cc.Method.Name(); tr.eng.db.Contracts[k2] != nil {
			key = k2
		}
	} else if fn := cc.StaticCallee(); fn != nil {
		key = specialisedKey(tr.eng.db, fn.String(), cc)
		callee = fn
	} else {
		// dynamic: field spec?
		switch v := cc.Value.(type) {
		case *ssa.UnOp:
			if fa, ok := v.X.(*ssa.FieldAddr); ok {
				st := pointee(fa.X.Type())
				fl := st.Underlying().(*types.Struct).Field(fa.Field)
				key = tr.eng.db.FieldSpecs[typeKey(st)+"."+fl.Name()]
			}
		case *ssa.Field:
			if st, ok := v.X.Type().Underlying().(*types.Struct); ok {
				key = tr.eng.db.FieldSpecs[typeKey(v.X.Type())+"."+st.Field(v.Field).Name()]
			}
		}
		if key == "" {
			// unknown func value: same treatment as in call(): all heaps, ghosts untouched (assumption: callbacks
			// supplied by the caller do not touch locks/drive ghost state) except store-invalidated ghost maps
			tr.setAllFor(ef, cc)
			tr.invalidatedGhostsInto(ef, cc)
			return
		}
	}
	switch key {
	case "strings.HasPrefix", "strings.HasSuffix", "strings.Contains", "strings.TrimPrefix", "strings.TrimSuffix",
		"path/filepath.ToSlash", "path/filepath.FromSlash", "path.IsAbs", "path/filepath.IsAbs", "math.Ceil", "math.Floor",
		"context.Background", "context.TODO", "errors.Is":
		return
	}
	if c := tr.eng.db.Contracts[key]; c != nil {
		if c.ModAll {
			tr.setAllFor(ef, cc)
			tr.invalidatedGhostsInto(ef, cc)
		}
		for _, m := range c.Modifies {
			if strings.HasPrefix(m, "F/") || strings.HasPrefix(m, "C/") {
				ef.heaps[m] = true
				continue
			}
			e, err := ParseExpr(m)
			if err != nil {
				tr.setAllFor(ef, cc)
				continue
			}
			switch e.K {
			case EIdent:
				ef.ghosts[e.Name] = true
			case EIndex:
				if e.A.K == EIdent {
					ef.ghosts[e.A.Name] = true
				}
			default:
				// object-level heap targets: resolve statically is not attempted
				tr.setAllFor(ef, cc)
				tr.invalidatedGhostsInto(ef, cc)
			}
		}
		return
	}
	if callee != nil && len(callee.Blocks) > 0 && (tr.eng.inModule(callee) || callee.Parent() != nil) {
		if visited[callee] || depth > maxInlineDepth {
			ef.all = true
			ef.privAll = true
			ef.allGhost = true
			return
		}
		visited[callee] = true
		tr.bodyEffectsInto(callee, ef, depth+1, visited)
		delete(visited, callee)
		return
	}
	// external without spec
	sig := cc.Signature()
	carries := cc.IsInvoke()
	for i := 0; i < sig.Params().Len(); i++ {
		if typeCarriesEffects(sig.Params().At(i).Type()) {
			carries = true
		}
	}
	if sig.Recv() != nil && typeCarriesEffects(sig.Recv().Type()) {
		carries = true
	}
	if carries {
		tr.setAllFor(ef, cc)
		tr.invalidatedGhostsInto(ef, cc)
	}
}

func (tr *Tr) bodyEffectsInto(fn *ssa.Function, ef *effects, depth int, visited map[*ssa.Function]bool) {
	for _, b := range fn.Blocks {
		for _, in := range b.Instrs {
			switch x := in.(type) {
			case *ssa.Store:
				for _, n := range tr.storeTargets(x.Addr) {
					ef.heaps[n] = true
				}
				if pt := storeStructType(x.Addr); pt != nil {
					for _, gn := range tr.eng.db.GhostOrder {
						if tr.eng.db.Ghosts[gn].InvalidatedBy == typeKey(pt) {
							ef.ghosts[gn] = true
						}
					}
				}
			case *ssa.MapUpdate:
				ef.all = true
			case *ssa.MakeClosure:
				// a closure created here may be called by whoever receives it
				if cf, ok := x.Fn.(*ssa.Function); ok && !visited[cf] && depth <= maxInlineDepth {
					visited[cf] = true
					tr.bodyEffectsInto(cf, ef, depth+1, visited)
					delete(visited, cf)
				}
			case *ssa.Call:
				tr.callEffectsInto(&x.Call, ef, depth, visited)
			case *ssa.Defer:
				tr.callEffectsInto(&x.Call, ef, depth, visited)
			case *ssa.Go, *ssa.Send, *ssa.Select:
				ef.all = true
				ef.privAll = true
				ef.allGhost = true
			}
		}
	}
}

func (tr *Tr) wantElems() bool {
	if tr.contract == nil {
		return false
	}
	for _, s := range tr.contract.Flags {
		if s == "elements" {
			return true
		}
	}
	return false
}

// atCallAsserts evaluates `at call Callee[#k] assert|assume e` annotations of the function under contract.
func (f *Frame) atCallAsserts(cc *ssa.CallCommon, in ssa.Instruction, display string, args []Val) {
	if in == nil || f.tr.contract == nil {
		return
	}
	tr := f.tr
	full := f.callName[in] // display#k
	// inside an inlined closure/function the annotation names the call as `<inlined function>/<callee>`
	want := display
	if !f.top {
		want = f.fn.Name() + "/" + display
	}
	for i, ac := range tr.contract.AtCalls {
		if ac.Callee != want {
			continue
		}
		if ac.K != 0 && full != fmt.Sprintf("%s#%d", display, ac.K) {
			continue
		}
		if tr.atMatched == nil {
			tr.atMatched = map[int]bool{}
		}
		tr.atMatched[i] = true
		env := f.envAt(in.Block())
		pn, _ := sigNames(cc.Signature(), cc.IsInvoke())
		off := len(args) - len(pn)
		for j, a := range args {
			if j-off >= 0 && j-off < len(pn) {
				env.vars["arg_"+pn[j-off]] = a
			}
			env.vars[fmt.Sprintf("arg%d", j)] = a
		}
		t, err := env.boolExpr(ac.Clause.E)
		if err != nil {
			tr.errorf("%s: at call %s: %v", f.fn.Name(), ac.Callee, err)
			continue
		}
		if ac.Assume {
			f.assume(t)
			continue
		}
		if ac.Cover {
			lbl := ac.Clause.Label
			if lbl == "" {
				lbl = fmt.Sprintf("cover.%s.%d", ac.Callee, i+1)
			}
			f.addCover(ac.Clause.Prop, lbl, ac.Clause.Src, "at "+full, sAnd(f.cur.R, t))
			continue
		}
		lbl := ac.Clause.Label
		if lbl == "" {
			lbl = fmt.Sprintf("at.%s.%d", ac.Callee, i+1)
		}
		f.addSite(ac.Clause.Prop, lbl, "assert", ac.Clause.Src, "at "+full, sAnd(f.cur.R, sNot(t)))
	}
}

func pkgOfFn(fn *ssa.Function) string {
	for x := fn; x != nil; x = x.Parent() {
		if x.Pkg != nil {
			return x.Pkg.Pkg.Path()
		}
	}
	if fn.Signature.Recv() != nil {
		t := fn.Signature.Recv().Type()
		if p, ok := t.(*types.Pointer); ok {
			t = p.Elem()
		}
		if n, ok := t.(*types.Named); ok && n.Obj().Pkg() != nil {
			return n.Obj().Pkg().Path()
		}
	}
	return ""
}

func namedPkg(t types.Type) string {
	if p, ok := t.(*types.Pointer); ok {
		t = p.Elem()
	}
	if n, ok := t.(*types.Named); ok && n.Obj().Pkg() != nil {
		if _, isStruct := n.Underlying().(*types.Struct); isStruct {
			return n.Obj().Pkg().Path()
		}
	}
	return ""
}

// privacyOf decides whether a call keeps the private (unexported) fields of the verified function's package, and which
// of them closures passed to it may write.
func (tr *Tr) privacyOf(cc *ssa.CallCommon) (bool, map[string]bool) {
	P := tr.privPkg
	if P == "" {
		return false, nil
	}
	calleePkg := ""
	if cc.IsInvoke() {
		if cc.Method.Pkg() != nil {
			calleePkg = cc.Method.Pkg().Path()
		}
	} else if fn := cc.StaticCallee(); fn != nil {
		calleePkg = pkgOfFn(fn)
	}
	if calleePkg == P {
		return false, nil
	}
	writes := map[string]bool{}
	check := func(v ssa.Value) bool {
		switch kindOf(v.Type()) {
		case VFunc:
			var fn *ssa.Function
			switch x := v.(type) {
			case *ssa.MakeClosure:
				fn = x.Fn.(*ssa.Function)
			case *ssa.Function:
				fn = x
			case *ssa.Const:
				return true
			default:
				// func value of unknown origin (field, parameter): assumed not to be a closure over this package's
				// private state when it was supplied from outside; conservatively give up when it is a local phi
				if _, isPhi := v.(*ssa.Phi); isPhi {
					return false
				}
				tr.note("func values loaded from fields/parameters are assumed not to write unexported fields of " + P)
				return true
			}
			ef := &effects{heaps: map[string]bool{}, ghosts: map[string]bool{}}
			tr.bodyEffectsInto(fn, ef, 1, map[*ssa.Function]bool{fn: true})
			if ef.privAll {
				return false
			}
			for h := range ef.heaps {
				writes[h] = true
			}
			return true
		}
		if namedPkg(v.Type()) == P {
			return false
		}
		if mi, ok := v.(*ssa.MakeInterface); ok && namedPkg(mi.X.Type()) == P {
			return false
		}
		return true
	}
	if cc.IsInvoke() {
		if !check(cc.Value) {
			return false, nil
		}
	}
	for _, a := range cc.Args {
		if !check(a) {
			return false, nil
		}
	}
	return true, writes
}

// closureReachesPkg: does fn (transitively through in-module bodies) call a function of package P that is not inlined
// into the summary, i.e. has a contract or is too large?
func (tr *Tr) closureReachesPkg(fn *ssa.Function, P string, visited map[*ssa.Function]bool) bool {
	if visited[fn] {
		return false
	}
	visited[fn] = true
	for _, b := range fn.Blocks {
		for _, in := range b.Instrs {
			var cc *ssa.CallCommon
			switch x := in.(type) {
			case *ssa.Call:
				cc = &x.Call
			case *ssa.Defer:
				cc = &x.Call
			case *ssa.Go:
				cc = &x.Call
			case *ssa.MakeClosure:
				if cf, ok := x.Fn.(*ssa.Function); ok && tr.closureReachesPkg(cf, P, visited) {
					return true
				}
			}
			if cc == nil {
				continue
			}
			if callee := cc.StaticCallee(); callee != nil {
				if pkgOfFn(callee) == P && callee.Parent() == nil {
					if tr.eng.db.Contracts[callee.String()] != nil || len(callee.Blocks) > maxInlineBlocks {
						return true
					}
				}
				if len(callee.Blocks) > 0 && tr.eng.inModule(callee) && tr.closureReachesPkg(callee, P, visited) {
					return true
				}
			}
		}
	}
	return false
}

func (f *Frame) setPrivacy(cc *ssa.CallCommon, callee *ssa.Function, bindings []Val) {
	keep, writes := f.tr.privacyOf(cc)
	f.privKeep = keep
	f.privWrites = writes
}

// unboxed: the value of type t stored in interface value iv, as deterministic functions of iv (so that two
// assertions of the same interface value agree).
func (tr *Tr) unboxed(t types.Type, iv string, path string) Val {
	k := kindOf(t)
	name := "unbox/" + typeKey(t) + path
	switch k {
	case VStruct:
		st := t.Underlying().(*types.Struct)
		out := Val{K: VStruct, Typ: t}
		for i := 0; i < st.NumFields(); i++ {
			out.Fs = append(out.Fs, tr.unboxed(st.Field(i).Type(), iv, path+"."+st.Field(i).Name()))
		}
		return out
	case VTuple:
		return tr.freshVal(t, "unbox")
	case VSlice:
		fb := tr.declareFun(name+"#base", []string{"Int"}, "Int")
		fl := tr.declareFun(name+"#len", []string{"Int"}, "Int")
		l := "(" + fl + " " + iv + ")"
		key := "unboxlen:" + l
		if !tr.declared[key] && !strings.Contains(l, "!q") {
			tr.declared[key] = true
			tr.fact("(>= " + l + " 0)")
		}
		return Val{K: VSlice, T: "(" + fb + " " + iv + ")", Len: l, Typ: t}
	}
	fn := tr.declareFun(name, []string{"Int"}, kindSort(k))
	return Val{K: k, T: "(" + fn + " " + iv + ")", Typ: t}
}

// applyMaybeSpecs: the callee is a func value that conforms to one of the named specs, or to none (then it is an
// unknown function: any heap may change, ghost maps listed by the first spec are havocked too).
func (f *Frame) applyMaybeSpecs(fv Val, specs []string, sig *types.Signature, args []Val, in ssa.Instruction, resType types.Type, display string) Val {
	tr := f.tr
	start := PP{R: f.cur.R, St: f.cur.St.clone()}
	var pps []PP
	var vals []Val
	var guards []string
	for _, sn := range specs {
		S := tr.eng.db.Contracts[sn]
		if S == nil {
			tr.errorf("%s: unknown spec %s for func value %s", f.fn.Name(), sn, display)
			continue
		}
		p := tr.declareFun("conf/"+sn, []string{"Int"}, "Bool")
		g := "(" + p + " " + fv.T + ")"
		// alternatives are tried in the order written: a value conforming to several specs behaves as the first
		var prior []string
		for _, pg := range guards {
			prior = append(prior, sNot(pg))
		}
		guards = append(guards, g)
		f.cur = PP{R: tr.define("R", "Bool", sAnd(append([]string{start.R, g}, prior...)...)), St: start.St.clone()}
		tr.note("assumed spec (if the value conforms): " + sn)
		v := f.applyContract(S, sig, false, args, in, resType, display)
		pps = append(pps, f.cur)
		vals = append(vals, v)
	}
	// none of the specs
	var ng []string
	for _, g := range guards {
		ng = append(ng, sNot(g))
	}
	f.cur = PP{R: tr.define("R", "Bool", sAnd(append([]string{start.R}, ng...)...)), St: start.St.clone()}
	f.havocHeaps(nil, true, in, "unknown func value "+display)
	f.havocInvalidatedGhosts()
	if len(specs) > 0 {
		if S := tr.eng.db.Contracts[specs[0]]; S != nil {
			env := f.bindContractEnv(S, sig, false, args, nil)
			for _, m := range S.Modifies {
				if strings.HasPrefix(m, "F/") || strings.HasPrefix(m, "C/") {
					continue
				}
				if e, err := ParseExpr(m); err == nil {
					f.havocLval(e, env)
				}
			}
		}
	}
	pps = append(pps, f.cur)
	vals = append(vals, tr.freshVal(resType, "call/"+display))
	f.cur = tr.join(pps, "maybe_"+display)
	return tr.joinVals(pps, vals, "maybe")
}

// specialisedKey: a spec may be specialised on the concrete type boxed into an interface argument at the call site:
// `extern io.Copy[1:*archive/tar.Reader](dst, src)` applies when argument 1 is, statically, a *tar.Reader converted to
// an interface right at the call.
func specialisedKey(db *SpecDB, key string, cc *ssa.CallCommon) string {
	for i, a := range cc.Args {
		if mi, ok := a.(*ssa.MakeInterface); ok {
			k := fmt.Sprintf("%s[%d:%s]", key, i, typeKey(mi.X.Type()))
			if db.Contracts[k] != nil {
				return k
			}
		}
	}
	return key
}

func containsStr(xs []string, x string) bool {
	for _, y := range xs {
		if y == x {
			return true
		}
	}
	return false
}

// constrainFreshRef: a reference obtained from a callee is either a pre-existing object (non-negative) or one of this
// activation's allocations that may already have escaped; it can never be an allocation made later or kept private.
func (f *Frame) constrainFreshRef(v Val, at ssa.Instruction) {
	switch v.K {
	case VStruct, VTuple:
		for _, x := range v.Fs {
			f.constrainFreshRef(x, at)
		}
		return
	case VRef, VMap, VFunc:
	case VSlice:
	default:
		return
	}
	alts := []string{"(>= " + v.T + " 0)"}
	for fr := f; fr != nil; fr = fr.parentFrame() {
		for _, ai := range fr.allocL {
			if ai.ref == "" {
				continue
			}
			esc := true
			if fr == f && at != nil {
				esc = fr.escapedBefore(ai, at)
			} else if fr != f && fr.curInstr() != nil {
				esc = fr.escapedBefore(ai, fr.curInstr())
			}
			if esc {
				alts = append(alts, sEq(v.T, ai.ref))
			}
		}
	}
	f.assume(sOr(alts...))
}

// adoptFresh: results declared `fresh` are new objects that nothing else references; they are tracked like local
// allocations (their fields survive havocs until the value escapes).
func (f *Frame) adoptFresh(c *Contract, rn []string, results []Val, in ssa.Instruction) {
	if len(c.Fresh) == 0 || in == nil {
		return
	}
	call, ok := in.(*ssa.Call)
	if !ok {
		return
	}
	for i, r := range results {
		name := fmt.Sprintf("result%d", i)
		if i < len(rn) {
			name = rn[i]
		}
		if !containsStr(c.Fresh, name) && !containsStr(c.Fresh, fmt.Sprintf("result%d", i)) && !(len(results) == 1 && containsStr(c.Fresh, "result")) {
			continue
		}
		if r.K != VRef || pointee0(r.Typ) == nil {
			continue
		}
		var holder ssa.Value
		if len(results) == 1 {
			holder = call
		} else if refs := call.Referrers(); refs != nil {
			for _, u := range *refs {
				if ex, ok := u.(*ssa.Extract); ok && ex.Index == i {
					holder = ex
				}
			}
		}
		if holder == nil {
			continue
		}
		ai := &allocInfo{mk: holder, typ: r.Typ, ref: r.T}
		f.tr.ownRefs = append(f.tr.ownRefs, r.T)
		f.escapeWalk(ai, holder, map[ssa.Value]bool{})
		f.allocL = append(f.allocL, ai)
		// a fresh object is distinct from every object known so far
		f.assume("(not (= " + r.T + " 0))")
	}
}
