package main

// Passive-form VC generation over go/ssa for one function under contract (callees without contract inlined).

import (
	"fmt"
	"go/constant"
	"go/token"
	"go/types"
	"sort"
	"strings"

	"golang.org/x/tools/go/ssa"
)

type State struct {
	H map[string]string
}

func (s *State) clone() *State {
	n := &State{H: make(map[string]string, len(s.H))}
	for k, v := range s.H {
		n.H[k] = v
	}
	return n
}

type PP struct {
	R  string
	St *State
}

type Site struct {
	Sig    string
	Goal   string // SMT Bool term that must be unsat
	What   string
	Expect string // "" (must be unsat) or "sat" (cover)
	Guard  string // for reporting
}

type Obl struct {
	Prop  string
	Func  string
	Label string
	Kind  string
	Src   string
	Sites []*Site
	tr    *Tr
}

func (o *Obl) Name() string { return o.Prop + "." + o.Func + "." + o.Label }

type Tr struct {
	eng       *Engine
	top       *ssa.Function
	topShort  string
	contract  *Contract
	decls     []string
	defs      []string
	facts     []string
	declared  map[string]bool
	sorts     map[string]string // state var -> sort
	n         int
	obls      map[string]*Obl
	oblOrder  []string
	init      *State
	nalloc    int
	used      map[string]bool // assumption log
	errs      []string
	uninterp  map[string]bool
	covers    []*Site
	ownRefs   []string     // objects allocated during this activation (own allocations, inlined callees', adopted fresh results)
	atMatched map[int]bool // at-call clauses of the contract that matched some call site
	frames    int
	sl        *slicer
	privPkg   string
	prop      string // property being checked ("" = all): selects which tagged callee postconditions are assumed
	topFrame  *Frame
	topArgs   []Val
	topBinds  []Val
}

type allocInfo struct {
	typ     types.Type // pointer type of an adopted fresh call result (a and mk are nil then)
	mk      ssa.Value  // MakeMap value, or the SSA value holding an adopted fresh call result (a is nil then)
	a       *ssa.Alloc
	ref     string
	escapes []ssa.Instruction // instructions at which the address (or a derived pointer) escapes
	always  bool              // escaped from the start (conservative)
	stores  []ssa.Instruction // stores through it (for loop havoc)
	locs    [][2]string       // (heap name, ref term) pairs
}

type deferRec struct {
	instr *ssa.Defer
	flag  string
	args  []Val
	fnVal Val
}

type retRec struct {
	pp      PP
	results []Val
	instr   *ssa.Return
	sig     string
}

type loopInfo struct {
	header  *ssa.BasicBlock
	body    map[int]bool
	ordinal int
}

type Frame struct {
	tr       *Tr
	fn       *ssa.Function
	vals     map[ssa.Value]Val
	depth    int
	stack    []*ssa.Function
	out      map[[2]int]PP
	blockPP  map[int]PP
	defers   []*deferRec
	rets     []retRec
	allocs   map[*ssa.Alloc]*allocInfo
	mkmaps   map[ssa.Value]*allocInfo
	allocL   []*allocInfo
	loops    map[int]*loopInfo // by header index
	reach    [][]bool
	callOrd  map[string]int
	callName map[ssa.Instruction]string
	cur      PP
	curBlock *ssa.BasicBlock
	curIdx   int
	top      bool
	act      int
	params   map[string]Val
	oldSt    *State
	contract *Contract
	backPP   map[int][]backEdge
	guard    string // extra guard for obligations (deferred conditional calls)
	parent   *Frame
	curIn    ssa.Instruction
	// privacy rule for the call being translated: unexported fields of the verified function's own package are not
	// written by code of other packages, except through closures passed to it (their static write summary)
	privKeep        bool
	privWrites      map[string]bool
	loopPrivAll     bool
	lastEffectHeaps []string
	loopGhosts      map[int][]string
	curArgs         []Val
}

type backEdge struct {
	from int
	pp   PP
}

func (tr *Tr) fresh(prefix string) string {
	tr.n++
	return fmt.Sprintf("%s!%d", prefix, tr.n)
}

func (tr *Tr) declare(name, sort string) string {
	s := sym(name)
	if !tr.declared[s] {
		tr.declared[s] = true
		tr.decls = append(tr.decls, fmt.Sprintf("(declare-const %s %s)", s, sort))
	}
	return s
}

func (tr *Tr) declareFun(name string, args []string, res string) string {
	s := sym(name)
	if !tr.declared[s] {
		tr.declared[s] = true
		tr.decls = append(tr.decls, fmt.Sprintf("(declare-fun %s (%s) %s)", s, strings.Join(args, " "), res))
	}
	return s
}

func (tr *Tr) freshConst(prefix, sort string) string {
	return tr.declare(tr.fresh(prefix), sort)
}

// define binds a term to a name (sharing).
func (tr *Tr) define(prefix, sort, term string) string {
	if len(term) < 40 && !strings.Contains(term, " ") {
		return term
	}
	name := sym(tr.fresh(prefix))
	tr.defs = append(tr.defs, fmt.Sprintf("(define-fun %s () %s %s)", name, sort, term))
	return name
}

func (tr *Tr) fact(f string) {
	if f != "true" {
		tr.facts = append(tr.facts, f)
	}
}

func (tr *Tr) errorf(format string, a ...interface{}) {
	tr.errs = append(tr.errs, fmt.Sprintf(format, a...))
}

func (tr *Tr) note(s string) { tr.used[s] = true }

// ---- state access ----

func (tr *Tr) stateGet(st *State, name, sort string) string {
	if t, ok := st.H[name]; ok {
		return t
	}
	tr.sorts[name] = sort
	if t, ok := tr.init.H[name]; ok {
		st.H[name] = t
		return t
	}
	c := tr.declare(name+"@0", sort)
	// ghost defaults / deferred flags
	tr.init.H[name] = c
	st.H[name] = c
	return c
}

func (tr *Tr) stateSet(st *State, name, sort, term string) {
	tr.sorts[name] = sort
	if _, ok := tr.init.H[name]; !ok {
		tr.init.H[name] = tr.declare(name+"@0", sort)
	}
	st.H[name] = term
}

func arrSort(elem string) string { return "(Array Int " + elem + ")" }

// join merges path points.
func (tr *Tr) join(pps []PP, tag string) PP {
	var live []PP
	for _, p := range pps {
		if p.R != "false" {
			live = append(live, p)
		}
	}
	if len(live) == 0 {
		return PP{R: "false", St: &State{H: map[string]string{}}}
	}
	if len(live) == 1 {
		return PP{R: live[0].R, St: live[0].St.clone()}
	}
	var rs []string
	for _, p := range live {
		rs = append(rs, p.R)
	}
	R := tr.define("R_"+tag, "Bool", sOr(rs...))
	names := map[string]bool{}
	for _, p := range live {
		for k := range p.St.H {
			names[k] = true
		}
	}
	var ks []string
	for k := range names {
		ks = append(ks, k)
	}
	sort.Strings(ks)
	st := &State{H: map[string]string{}}
	for _, k := range ks {
		srt := tr.sorts[k]
		terms := make([]string, len(live))
		same := true
		for i, p := range live {
			terms[i] = tr.stateGet(p.St, k, srt)
			if terms[i] != terms[0] {
				same = false
			}
		}
		if same {
			st.H[k] = terms[0]
			continue
		}
		t := terms[len(live)-1]
		for i := len(live) - 2; i >= 0; i-- {
			t = sIte(live[i].R, terms[i], t)
		}
		st.H[k] = tr.define("J_"+tag, srt, t)
	}
	return PP{R: R, St: st}
}

func (tr *Tr) joinVals(pps []PP, vs []Val, tag string) Val {
	// pps[i].R selects vs[i]
	if len(vs) == 0 {
		return Val{K: VOpaque, T: "0"}
	}
	if len(vs) == 1 {
		return vs[0]
	}
	v0 := vs[0]
	switch v0.K {
	case VStruct, VTuple:
		out := Val{K: v0.K, Typ: v0.Typ}
		for i := range v0.Fs {
			var sub []Val
			for _, v := range vs {
				if i < len(v.Fs) {
					sub = append(sub, v.Fs[i])
				} else {
					sub = append(sub, v0.Fs[i])
				}
			}
			out.Fs = append(out.Fs, tr.joinVals(pps, sub, tag))
		}
		return out
	}
	mergeTerm := func(get func(Val) string, sort string) string {
		same := true
		for _, v := range vs {
			if get(v) != get(v0) {
				same = false
			}
		}
		if same {
			return get(v0)
		}
		t := get(vs[len(vs)-1])
		for i := len(vs) - 2; i >= 0; i-- {
			t = sIte(pps[i].R, get(vs[i]), t)
		}
		return tr.define("phi_"+tag, sort, t)
	}
	out := Val{K: v0.K, Typ: v0.Typ}
	out.T = mergeTerm(func(v Val) string { return v.T }, v0.sort())
	if v0.K == VSlice {
		out.Len = mergeTerm(func(v Val) string { return v.Len }, "Int")
	}
	// provenance survives only if identical
	prov := v0.Prov
	for _, v := range vs {
		if v.Prov == nil || prov == nil || v.Prov.Spec != prov.Spec || v.Prov.Fn != prov.Fn {
			prov = nil
			break
		}
	}
	out.Prov = prov
	return out
}

// ---- fresh values by type ----

func (tr *Tr) freshVal(t types.Type, prefix string) Val {
	k := kindOf(t)
	switch k {
	case VStruct:
		st := t.Underlying().(*types.Struct)
		v := Val{K: VStruct, Typ: t}
		for i := 0; i < st.NumFields(); i++ {
			v.Fs = append(v.Fs, tr.freshVal(st.Field(i).Type(), prefix+"."+st.Field(i).Name()))
		}
		return v
	case VTuple:
		tu := t.(*types.Tuple)
		v := Val{K: VTuple, Typ: t}
		for i := 0; i < tu.Len(); i++ {
			v.Fs = append(v.Fs, tr.freshVal(tu.At(i).Type(), fmt.Sprintf("%s#%d", prefix, i)))
		}
		return v
	case VSlice:
		b := tr.freshConst(prefix+"#base", "Int")
		l := tr.freshConst(prefix+"#len", "Int")
		tr.fact("(>= " + l + " 0)")
		return Val{K: VSlice, T: b, Len: l, Typ: t}
	}
	c := tr.freshConst(prefix, kindSort(k))
	if k == VInt {
		if b, ok := t.Underlying().(*types.Basic); ok && b.Info()&types.IsUnsigned != 0 {
			tr.fact("(>= " + c + " 0)")
		}
	}
	return Val{K: k, T: c, Typ: t}
}

func (tr *Tr) zeroVal(t types.Type) Val {
	k := kindOf(t)
	switch k {
	case VStruct:
		st := t.Underlying().(*types.Struct)
		v := Val{K: VStruct, Typ: t}
		for i := 0; i < st.NumFields(); i++ {
			v.Fs = append(v.Fs, tr.zeroVal(st.Field(i).Type()))
		}
		return v
	case VSlice:
		return Val{K: VSlice, T: "0", Len: "0", Typ: t}
	case VBool:
		return Val{K: k, T: "false", Typ: t}
	case VStr:
		return Val{K: k, T: `""`, Typ: t}
	case VReal:
		return Val{K: k, T: "0.0", Typ: t}
	case VOpaque:
		return Val{K: k, T: tr.freshConst("zero", "Int"), Typ: t}
	}
	return Val{K: k, T: "0", Typ: t}
}

// ---- memory model ----

func (tr *Tr) subRef(structT types.Type, field string, ref string) string {
	f := tr.declareFun("sub/"+typeKey(structT)+"/"+field, []string{"Int"}, "Int")
	t := "(" + f + " " + ref + ")"
	// embedded objects of different (type, field) or of different owners are different objects
	key := "subax:" + t
	if !tr.declared[key] && !strings.Contains(t, "!q") {
		tr.declared[key] = true
		sid := tr.declareFun("sub_id", []string{"Int"}, "Int")
		sow := tr.declareFun("sub_owner", []string{"Int"}, "Int")
		id := tr.eng.typeIDByKey("sub/" + typeKey(structT) + "/" + field)
		tr.fact(fmt.Sprintf("(and (= (%s %s) %s) (= (%s %s) %s) (> %s 0))", sid, t, id, sow, t, ref, t))
	}
	return t
}

func (tr *Tr) elemRef(base, idx string) string {
	f := tr.declareFun("elem", []string{"Int", "Int"}, "Int")
	fb := tr.declareFun("elem_base", []string{"Int"}, "Int")
	fi := tr.declareFun("elem_idx", []string{"Int"}, "Int")
	t := "(" + f + " " + base + " " + idx + ")"
	key := "elemax:" + t
	if !tr.declared[key] && !strings.Contains(t, "!q") {
		tr.declared[key] = true
		tr.fact(fmt.Sprintf("(and (= (%s %s) %s) (= (%s %s) %s))", fb, t, base, fi, t, idx))
	}
	return t
}

func fieldHeapName(structT types.Type, field string) string {
	return "F/" + typeKey(structT) + "/" + field
}

// load reads a value of type t at address ref.
func (tr *Tr) load(st *State, t types.Type, ref string) Val {
	k := kindOf(t)
	switch k {
	case VStruct:
		s := t.Underlying().(*types.Struct)
		v := Val{K: VStruct, Typ: t}
		for i := 0; i < s.NumFields(); i++ {
			v.Fs = append(v.Fs, tr.loadField(st, t, s.Field(i), ref))
		}
		return v
	case VSlice:
		hb := tr.stateGet(st, "C/"+typeKey(t)+"#base", arrSort("Int"))
		hl := tr.stateGet(st, "C/"+typeKey(t)+"#len", arrSort("Int"))
		return Val{K: VSlice, T: sSel(hb, ref), Len: sSel(hl, ref), Typ: t}
	}
	if k == VOpaque {
		if _, isArr := t.Underlying().(*types.Array); isArr {
			return Val{K: VOpaque, T: ref, Typ: t} // array value identified with its address (read-only use)
		}
	}
	h := tr.stateGet(st, "C/"+typeKey(t), arrSort(kindSort(k)))
	return Val{K: k, T: sSel(h, ref), Typ: t}
}

func (tr *Tr) loadField(st *State, structT types.Type, f *types.Var, ref string) Val {
	ft := f.Type()
	k := kindOf(ft)
	hn := fieldHeapName(structT, f.Name())
	switch k {
	case VStruct:
		return tr.load(st, ft, tr.subRef(structT, f.Name(), ref))
	case VSlice:
		hb := tr.stateGet(st, hn+"#base", arrSort("Int"))
		hl := tr.stateGet(st, hn+"#len", arrSort("Int"))
		return Val{K: VSlice, T: sSel(hb, ref), Len: sSel(hl, ref), Typ: ft}
	}
	if _, isArr := ft.Underlying().(*types.Array); isArr {
		return Val{K: VOpaque, T: tr.subRef(structT, f.Name(), ref), Typ: ft}
	}
	h := tr.stateGet(st, hn, arrSort(kindSort(k)))
	v := Val{K: k, T: sSel(h, ref), Typ: ft}
	if k == VFunc {
		if sp, ok := tr.eng.db.FieldSpecs[typeKey(structT)+"."+f.Name()]; ok {
			v.Prov = &FuncProv{Spec: sp}
		}
	}
	return v
}

func (tr *Tr) store(st *State, t types.Type, ref string, v Val) {
	k := kindOf(t)
	switch k {
	case VStruct:
		s := t.Underlying().(*types.Struct)
		for i := 0; i < s.NumFields(); i++ {
			var fv Val
			if i < len(v.Fs) {
				fv = v.Fs[i]
			} else {
				fv = tr.freshVal(s.Field(i).Type(), "stf")
			}
			tr.storeField(st, t, s.Field(i), ref, fv)
		}
		tr.invalidateGhosts(st, t, ref)
		return
	case VSlice:
		nb, nl := "C/"+typeKey(t)+"#base", "C/"+typeKey(t)+"#len"
		tr.stateSet(st, nb, arrSort("Int"), sSto(tr.stateGet(st, nb, arrSort("Int")), ref, v.T))
		tr.stateSet(st, nl, arrSort("Int"), sSto(tr.stateGet(st, nl, arrSort("Int")), ref, v.Len))
		return
	}
	if _, isArr := t.Underlying().(*types.Array); isArr {
		return // whole-array stores are not modelled (contents opaque)
	}
	n := "C/" + typeKey(t)
	srt := arrSort(kindSort(k))
	tr.stateSet(st, n, srt, tr.define("st", srt, sSto(tr.stateGet(st, n, srt), ref, tr.coerce(v, k))))
}

func (tr *Tr) coerce(v Val, k VK) string {
	if kindSort(v.K) == kindSort(k) {
		return v.T
	}
	// sort mismatch (e.g. opaque): fresh
	return tr.freshConst("coerce", kindSort(k))
}

func (tr *Tr) storeField(st *State, structT types.Type, f *types.Var, ref string, v Val) {
	ft := f.Type()
	k := kindOf(ft)
	hn := fieldHeapName(structT, f.Name())
	switch k {
	case VStruct:
		tr.store(st, ft, tr.subRef(structT, f.Name(), ref), v)
		return
	case VSlice:
		tr.stateSet(st, hn+"#base", arrSort("Int"), sSto(tr.stateGet(st, hn+"#base", arrSort("Int")), ref, v.T))
		tr.stateSet(st, hn+"#len", arrSort("Int"), sSto(tr.stateGet(st, hn+"#len", arrSort("Int")), ref, v.Len))
		return
	}
	if _, isArr := ft.Underlying().(*types.Array); isArr {
		return
	}
	srt := arrSort(kindSort(k))
	tr.stateSet(st, hn, srt, tr.define("st", srt, sSto(tr.stateGet(st, hn, srt), ref, tr.coerce(v, k))))
}

// invalidateGhosts resets ghost map entries declared `invalidated_by T` when a field of a T object is written.
func (tr *Tr) invalidateGhosts(st *State, structT types.Type, ref string) {
	tk := typeKey(structT)
	for _, gn := range tr.eng.db.GhostOrder {
		g := tr.eng.db.Ghosts[gn]
		if g.InvalidatedBy == tk {
			srt := ghostSort(g.Sort)
			cur := tr.stateGet(st, "G/"+g.Name, srt)
			tr.stateSet(st, "G/"+g.Name, srt, tr.define("ginv", srt, sSto(cur, ref, ghostDefault(g.Sort))))
		}
	}
}

func ghostSort(s string) string {
	switch s {
	case "bool":
		return "Bool"
	case "int":
		return "Int"
	case "string":
		return "String"
	case "map[int]bool", "map[ref]bool":
		return "(Array Int Bool)"
	case "map[int]int", "map[ref]int", "map[ref]ref":
		return "(Array Int Int)"
	case "map[int]string", "map[ref]string":
		return "(Array Int String)"
	case "map[string]bool":
		return "(Array String Bool)"
	case "map[string]int":
		return "(Array String Int)"
	case "map[string]string":
		return "(Array String String)"
	}
	return "Int"
}

func ghostDefault(s string) string {
	switch s {
	case "map[int]bool", "map[ref]bool", "map[string]bool":
		return "false"
	case "map[int]int", "map[ref]int", "map[ref]ref", "map[string]int":
		return "0"
	}
	return `""`
}

// pointee type of a pointer-typed SSA value
func pointee(t types.Type) types.Type {
	if p, ok := t.Underlying().(*types.Pointer); ok {
		return p.Elem()
	}
	return nil
}

// ---- function translation ----

func (tr *Tr) newFrame(fn *ssa.Function, parent *Frame) *Frame {
	tr.frames++
	f := &Frame{
		tr: tr, fn: fn, vals: map[ssa.Value]Val{}, out: map[[2]int]PP{}, blockPP: map[int]PP{},
		allocs: map[*ssa.Alloc]*allocInfo{}, mkmaps: map[ssa.Value]*allocInfo{}, loops: map[int]*loopInfo{}, callOrd: map[string]int{},
		callName: map[ssa.Instruction]string{}, act: tr.frames, params: map[string]Val{}, backPP: map[int][]backEdge{},
		loopGhosts: map[int][]string{},
	}
	if parent != nil {
		f.parent = parent
		f.depth = parent.depth + 1
		f.stack = append(append([]*ssa.Function{}, parent.stack...), fn)
		f.oldSt = parent.oldSt
	} else {
		f.stack = []*ssa.Function{fn}
		f.top = true
	}
	f.analyse()
	return f
}

func (f *Frame) analyse() {
	fn := f.fn
	n := len(fn.Blocks)
	// reachability between blocks (including back edges)
	f.reach = make([][]bool, n)
	for i := range f.reach {
		f.reach[i] = make([]bool, n)
	}
	for _, b := range fn.Blocks {
		for _, s := range b.Succs {
			f.reach[b.Index][s.Index] = true
		}
	}
	for k := 0; k < n; k++ {
		for i := 0; i < n; i++ {
			if f.reach[i][k] {
				for j := 0; j < n; j++ {
					if f.reach[k][j] {
						f.reach[i][j] = true
					}
				}
			}
		}
	}
	// loops: back edge u->v with v dominating u
	ord := 0
	for _, b := range fn.Blocks {
		isHeader := false
		for _, p := range b.Preds {
			if b.Dominates(p) {
				isHeader = true
			}
		}
		if isHeader {
			ord++
			li := &loopInfo{header: b, body: map[int]bool{b.Index: true}, ordinal: ord}
			// natural loop: nodes that reach a back-edge source without passing through header
			var work []*ssa.BasicBlock
			for _, p := range b.Preds {
				if b.Dominates(p) && !li.body[p.Index] {
					li.body[p.Index] = true
					work = append(work, p)
				}
			}
			for len(work) > 0 {
				x := work[len(work)-1]
				work = work[:len(work)-1]
				for _, p := range x.Preds {
					if !li.body[p.Index] {
						li.body[p.Index] = true
						work = append(work, p)
					}
				}
			}
			f.loops[b.Index] = li
		}
	}
	// call ordinals in source (block/instruction) order
	for _, b := range fn.Blocks {
		for _, in := range b.Instrs {
			var cc *ssa.CallCommon
			switch x := in.(type) {
			case *ssa.Call:
				cc = &x.Call
			case *ssa.Defer:
				cc = &x.Call
			case *ssa.Go:
				cc = &x.Call
			}
			if cc != nil {
				nm := shortCalleeName(cc)
				f.callOrd[nm]++
				f.callName[in] = fmt.Sprintf("%s#%d", nm, f.callOrd[nm])
			}
		}
	}
	// allocs and escapes
	for _, b := range fn.Blocks {
		for _, in := range b.Instrs {
			if a, ok := in.(*ssa.Alloc); ok {
				ai := &allocInfo{a: a}
				f.allocs[a] = ai
				f.allocL = append(f.allocL, ai)
			}
			if mm, ok := in.(*ssa.MakeMap); ok {
				ai := &allocInfo{mk: mm}
				f.mkmaps[mm] = ai
				f.allocL = append(f.allocL, ai)
			}
		}
	}
	for _, ai := range f.allocL {
		if ai.a != nil {
			f.escapeWalk(ai, ai.a, map[ssa.Value]bool{})
		} else {
			f.escapeWalk(ai, ai.mk, map[ssa.Value]bool{})
		}
	}
}

func shortCalleeName(cc *ssa.CallCommon) string {
	if cc.IsInvoke() {
		return cc.Method.Name()
	}
	if fn := cc.StaticCallee(); fn != nil {
		nm := fn.Name()
		return nm
	}
	switch v := cc.Value.(type) {
	case *ssa.Builtin:
		return v.Name()
	case *ssa.UnOp: // load of a func-typed field/cell
		if fa, ok := v.X.(*ssa.FieldAddr); ok {
			st := pointee(fa.X.Type()).Underlying().(*types.Struct)
			return st.Field(fa.Field).Name()
		}
		if a, ok := v.X.(*ssa.Alloc); ok && a.Comment != "" {
			return a.Comment
		}
	case *ssa.Field:
		if st, ok := v.X.Type().Underlying().(*types.Struct); ok {
			return st.Field(v.Field).Name()
		}
	case *ssa.Parameter:
		return v.Name()
	case *ssa.Extract:
		if c, ok := v.Tuple.(*ssa.Call); ok {
			if sig, ok := c.Call.Signature().Results().At(v.Index).Type().(*types.Signature); ok {
				_ = sig
			}
			if n := c.Call.Signature().Results().At(v.Index).Name(); n != "" {
				return n
			}
		}
	case *ssa.FreeVar:
		return v.Name()
	}
	return "dyncall"
}

func (f *Frame) escapeWalk(ai *allocInfo, v ssa.Value, seen map[ssa.Value]bool) {
	if seen[v] {
		return
	}
	seen[v] = true
	refs := v.Referrers()
	if refs == nil {
		return
	}
	for _, r := range *refs {
		switch x := r.(type) {
		case *ssa.UnOp: // load
		case *ssa.Store:
			if x.Addr == v {
				ai.stores = append(ai.stores, x)
			}
			if x.Val == v {
				if root := rootAlloc(x.Addr); root != nil && root != ai.a {
					// stored into a local object: escapes when that object does, or when the object is copied out whole
					ri := f.allocs[root]
					if ri != nil {
						f.escapeWalk(ai, root, seen)
						if rr := root.Referrers(); rr != nil {
							for _, u := range *rr {
								if ld, ok := u.(*ssa.UnOp); ok {
									if _, isStruct := pointee(root.Type()).Underlying().(*types.Struct); isStruct {
										ai.escapes = append(ai.escapes, ld)
									}
								}
							}
						}
						continue
					}
				}
				ai.escapes = append(ai.escapes, x)
			}
		case *ssa.FieldAddr:
			f.escapeWalk(ai, x, seen)
		case *ssa.IndexAddr:
			f.escapeWalk(ai, x, seen)
		case *ssa.Slice:
			f.escapeWalk(ai, x, seen)
		case *ssa.DebugRef:
		case *ssa.Phi:
			// a join of straight-line alternatives holds this object or another one: its uses are uses of the object;
			// at a loop header the object of an earlier iteration flows back in, which the iteration-aware escape
			// reasoning does not follow
			if _, loopHead := f.loops[x.Block().Index]; loopHead {
				ai.always = true
			} else {
				f.escapeWalk(ai, x, seen)
			}
		case *ssa.BinOp: // comparison with nil or another reference
		case *ssa.MakeClosure:
			// a closure that is only deferred or called on the spot does not publish what it captures
			private := true
			if cr := x.Referrers(); cr != nil {
				for _, u := range *cr {
					switch y := u.(type) {
					case *ssa.Defer:
						if y.Call.Value != ssa.Value(x) {
							private = false
						}
					case *ssa.Call:
						if y.Call.Value != ssa.Value(x) {
							private = false
						}
					case *ssa.DebugRef:
					default:
						private = false
					}
				}
			}
			if !private && closureMayWriteBinding(x, v) {
				ai.escapes = append(ai.escapes, x)
			}
		case *ssa.Call:
			if b, ok := x.Call.Value.(*ssa.Builtin); ok && (b.Name() == "append" || b.Name() == "len" || b.Name() == "cap" || b.Name() == "copy") {
				continue
			}
			ai.escapes = append(ai.escapes, x)
		case ssa.Instruction:
			ai.escapes = append(ai.escapes, x)
		}
	}
}

// escapedBefore reports whether alloc ai may have escaped when instruction `at` executes. An escape in an earlier loop
// iteration concerns the object of that iteration: only paths from the escape to `at` that do not pass through the
// allocation point again count.
func (f *Frame) escapedBefore(ai *allocInfo, at ssa.Instruction) bool {
	if ai.always {
		return true
	}
	var def ssa.Instruction
	if ai.a != nil {
		def = ai.a
	} else if in, ok := ai.mk.(ssa.Instruction); ok {
		def = in
	}
	ab := at.Block()
	idx := func(b *ssa.BasicBlock, in ssa.Instruction) int {
		for i, x := range b.Instrs {
			if x == in {
				return i
			}
		}
		return -1
	}
	for _, e := range ai.escapes {
		eb := e.Block()
		if eb == ab {
			ei, ai2 := idx(eb, e), idx(ab, at)
			if ei <= ai2 {
				// same block, escape first: unless the object is (re)created in between
				if def != nil && def.Block() == eb {
					di := idx(eb, def)
					if di > ei && di <= ai2 {
						continue
					}
				}
				return true
			}
		}
		// search forward from the escape, not passing through the definition
		seen := map[int]bool{}
		var work []*ssa.BasicBlock
		push := func(b *ssa.BasicBlock) {
			if !seen[b.Index] {
				seen[b.Index] = true
				work = append(work, b)
			}
		}
		// leaving eb: if the definition comes after e in eb, every path out of eb re-creates the object
		if !(def != nil && def.Block() == eb && idx(eb, def) > idx(eb, e)) {
			for _, s := range eb.Succs {
				push(s)
			}
		}
		found := false
		for len(work) > 0 && !found {
			b := work[len(work)-1]
			work = work[:len(work)-1]
			if b == ab {
				// reached the block of `at`: does the definition sit before `at` in this block?
				if def != nil && def.Block() == ab && idx(ab, def) <= idx(ab, at) {
					continue
				}
				found = true
				break
			}
			if def != nil && def.Block() == b {
				continue // passing through the allocation point: a new object
			}
			for _, s := range b.Succs {
				push(s)
			}
		}
		if found {
			return true
		}
	}
	return false
}

// allocLocs enumerates (heap name, ref) locations belonging to an alloc.
func (f *Frame) allocLocs(ai *allocInfo) [][2]string {
	if ai.locs != nil {
		return ai.locs
	}
	if ai.mk != nil && ai.typ == nil {
		if _, _, ok := mapSorts(ai.mk.Type()); ok {
			vn, hn := mapHeapNames(ai.mk.Type())
			ai.locs = [][2]string{{vn, ai.ref}, {hn, ai.ref}}
		} else {
			ai.locs = [][2]string{}
		}
		return ai.locs
	}
	var locs [][2]string
	var walk func(t types.Type, ref string, depth int)
	walk = func(t types.Type, ref string, depth int) {
		if depth > 4 {
			return
		}
		switch u := t.Underlying().(type) {
		case *types.Struct:
			for i := 0; i < u.NumFields(); i++ {
				fl := u.Field(i)
				fk := kindOf(fl.Type())
				hn := fieldHeapName(t, fl.Name())
				switch fk {
				case VStruct:
					walk(fl.Type(), f.tr.subRef(t, fl.Name(), ref), depth+1)
				case VSlice:
					locs = append(locs, [2]string{hn + "#base", ref}, [2]string{hn + "#len", ref})
				default:
					if _, isArr := fl.Type().Underlying().(*types.Array); isArr {
						continue
					}
					locs = append(locs, [2]string{hn, ref})
				}
			}
		case *types.Array:
			if u.Len() <= 4 {
				for i := int64(0); i < u.Len(); i++ {
					walk(u.Elem(), f.tr.elemRef(ref, sInt(i)), depth+1)
				}
			}
		case *types.Slice:
			locs = append(locs, [2]string{"C/" + typeKey(t) + "#base", ref}, [2]string{"C/" + typeKey(t) + "#len", ref})
		default:
			locs = append(locs, [2]string{"C/" + typeKey(t), ref})
		}
	}
	if ai.typ != nil {
		walk(pointee(ai.typ), ai.ref, 0)
	} else {
		walk(pointee(ai.a.Type()), ai.ref, 0)
	}
	// ghost map entries keyed by this ref are preserved as well
	ai.locs = locs
	return locs
}

func isGhostName(n string) bool { return strings.HasPrefix(n, "G/") }
func isFlagName(n string) bool  { return strings.HasPrefix(n, "D/") }

// havocHeaps replaces the listed heaps (or all non-ghost heaps when names == nil) by fresh arrays, preserving
// locations of allocs that cannot have escaped before `at`.
func (f *Frame) havocHeaps(names []string, all bool, at ssa.Instruction, why string) {
	tr := f.tr
	st := f.cur.St
	if all {
		names = nil
		// every heap known so far, in any state
		for k := range tr.sorts {
			if isGhostName(k) || isFlagName(k) || tr.eng.immutableHeap(k) {
				continue
			}
			if f.privKeep && tr.isPrivateHeap(k) && !f.privWrites[k] {
				continue
			}
			names = append(names, k)
		}
		sort.Strings(names)
	}
	set := map[string]string{}
	for _, n := range names {
		srt := tr.sorts[n]
		if srt == "" {
			continue
		}
		old := tr.stateGet(st, n, srt)
		nw := tr.freshConst("hv/"+n, srt)
		set[n] = old
		st.H[n] = nw
	}
	// preservation for non-escaped allocs of every frame on the stack (inlined callers included)
	for fr := f; fr != nil; fr = fr.parentFrame() {
		for _, ai := range fr.allocL {
			if ai.ref == "" {
				continue
			}
			esc := true
			if fr == f && at != nil {
				esc = fr.escapedBefore(ai, at)
			} else if fr != f && fr.curInstr() != nil {
				esc = fr.escapedBefore(ai, fr.curInstr())
			}
			if esc {
				continue
			}
			for _, loc := range fr.allocLocs(ai) {
				if old, ok := set[loc[0]]; ok {
					f.assume(sEq(sSel(st.H[loc[0]], loc[1]), sSel(old, loc[1])))
				}
			}
		}
	}
}

func (f *Frame) parentFrame() *Frame       { return f.parent }
func (f *Frame) curInstr() ssa.Instruction { return f.curIn }

func (f *Frame) assume(fact string) {
	if fact == "true" {
		return
	}
	f.cur.R = f.tr.define("R", "Bool", sAnd(f.cur.R, fact))
}

// value lookup
func (f *Frame) val(v ssa.Value) Val {
	if x, ok := f.vals[v]; ok {
		return x
	}
	tr := f.tr
	switch c := v.(type) {
	case *ssa.Const:
		return tr.constVal(c)
	case *ssa.Global:
		// address of a package-level variable
		g := tr.declare("globaddr/"+c.Pkg.Pkg.Path()+"."+c.Name(), "Int")
		return Val{K: VRef, T: g, Typ: c.Type()}
	case *ssa.Function:
		t := tr.declare("fn/"+c.String(), "Int")
		key := "fnnz:" + t
		if !tr.declared[key] {
			tr.declared[key] = true
			tr.fact("(> " + t + " 0)")
			tr.confFacts(t, c)
		}
		return Val{K: VFunc, T: t, Typ: c.Type(), Prov: &FuncProv{Fn: c, Spec: c.String()}}
	case *ssa.Builtin:
		return Val{K: VFunc, T: "0", Typ: c.Type()}
	}
	tr.errorf("%s: no value for %s (%T)", f.fn.Name(), v.Name(), v)
	return tr.freshVal(v.Type(), "undef")
}

func (tr *Tr) constVal(c *ssa.Const) Val {
	t := c.Type()
	k := kindOf(t)
	if c.Value == nil {
		return tr.zeroVal(t)
	}
	switch k {
	case VBool:
		if constant.BoolVal(c.Value) {
			return Val{K: VBool, T: "true", Typ: t}
		}
		return Val{K: VBool, T: "false", Typ: t}
	case VStr:
		return Val{K: VStr, T: smtStr(constant.StringVal(c.Value)), Typ: t}
	case VInt:
		if i, ok := constant.Int64Val(constant.ToInt(c.Value)); ok {
			return Val{K: VInt, T: sInt(i), Typ: t}
		}
		s := c.Value.ExactString()
		if strings.HasPrefix(s, "-") {
			return Val{K: VInt, T: "(- " + s[1:] + ")", Typ: t}
		}
		return Val{K: VInt, T: s, Typ: t}
	case VReal:
		fv, _ := constant.Float64Val(c.Value)
		s := fmt.Sprintf("%f", fv)
		if fv < 0 {
			s = fmt.Sprintf("(- %f)", -fv)
		}
		return Val{K: VReal, T: s, Typ: t}
	}
	return tr.zeroVal(t)
}

// run translates the function body from entry path point `in`; returns return records.
func (f *Frame) run(in PP, args []Val, bindings []Val) []retRec {
	fn := f.fn
	tr := f.tr
	if len(fn.Blocks) == 0 {
		return nil
	}
	for i, p := range fn.Params {
		if i < len(args) {
			f.vals[p] = args[i]
			f.params[p.Name()] = args[i]
		}
	}
	for i, fv := range fn.FreeVars {
		if i < len(bindings) {
			f.vals[fv] = bindings[i]
			f.params[fv.Name()] = bindings[i]
		}
	}
	// reverse postorder ignoring back edges
	order := f.rpo()
	for _, b := range order {
		if fn.Recover != nil && b == fn.Recover {
			continue
		}
		f.curBlock = b
		var pp PP
		li := f.loops[b.Index]
		if b.Index == 0 {
			pp = PP{R: in.R, St: in.St.clone()}
		} else {
			var ins []PP
			var preds []*ssa.BasicBlock
			for _, p := range b.Preds {
				if li != nil && b.Dominates(p) {
					continue // back edge
				}
				if o, ok := f.out[[2]int{p.Index, b.Index}]; ok {
					ins = append(ins, o)
					preds = append(preds, p)
				}
			}
			pp = tr.join(ins, fmt.Sprintf("b%d", b.Index))
			// phis
			for _, in := range b.Instrs {
				phi, ok := in.(*ssa.Phi)
				if !ok {
					break
				}
				var vs []Val
				var pps []PP
				for i, p := range b.Preds {
					if li != nil && b.Dominates(p) {
						continue
					}
					o, ok := f.out[[2]int{p.Index, b.Index}]
					if !ok || o.R == "false" {
						continue
					}
					vs = append(vs, f.val(phi.Edges[i]))
					pps = append(pps, o)
				}
				if len(vs) == 0 {
					f.vals[phi] = tr.freshVal(phi.Type(), "phi")
				} else {
					f.vals[phi] = tr.joinVals(pps, vs, phi.Name())
				}
			}
		}
		f.cur = pp
		f.blockPP[b.Index] = pp
		if li != nil {
			f.enterLoop(li)
		}
		if f.cur.R == "false" {
			// unreachable block: still need values defined for later phis; skip translation
			for _, s := range b.Succs {
				f.out[[2]int{b.Index, s.Index}] = PP{R: "false", St: f.cur.St}
			}
			continue
		}
		f.block(b)
	}
	return f.rets
}

func (f *Frame) rpo() []*ssa.BasicBlock {
	fn := f.fn
	seen := make([]bool, len(fn.Blocks))
	var post []*ssa.BasicBlock
	var dfs func(b *ssa.BasicBlock)
	dfs = func(b *ssa.BasicBlock) {
		seen[b.Index] = true
		for _, s := range b.Succs {
			if s.Dominates(b) { // back edge
				continue
			}
			if !seen[s.Index] {
				dfs(s)
			}
		}
		post = append(post, b)
	}
	dfs(fn.Blocks[0])
	for i, j := 0, len(post)-1; i < j; i, j = i+1, j-1 {
		post[i], post[j] = post[j], post[i]
	}
	return post
}

// loopWrites computes the heap names possibly written in the loop body and whether everything must be havocked.
func (f *Frame) loopWrites(li *loopInfo) (names map[string]bool, all bool, ghosts map[string]bool, allGhost bool) {
	names = map[string]bool{}
	ghosts = map[string]bool{}
	tr := f.tr
	f.loopPrivAll = false
	for _, b := range f.fn.Blocks {
		if !li.body[b.Index] {
			continue
		}
		for _, in := range b.Instrs {
			switch x := in.(type) {
			case *ssa.Store:
				for _, n := range tr.storeTargets(x.Addr) {
					names[n] = true
				}
				if pt := storeStructType(x.Addr); pt != nil {
					for _, gn := range tr.eng.db.GhostOrder {
						if tr.eng.db.Ghosts[gn].InvalidatedBy == typeKey(pt) {
							ghosts[gn] = true
						}
					}
				}
			case *ssa.MapUpdate:
				all = true
			case *ssa.Call:
				a, g, ag, pa := f.callEffects(&x.Call)
				if pa {
					f.loopPrivAll = true
				}
				if a == nil {
					all = true
					// explicit heaps (closure writes, stores) are still reported
					for _, n := range f.lastEffectHeaps {
						names[n] = true
					}
				} else {
					for _, n := range a {
						names[n] = true
					}
				}
				for _, n := range g {
					ghosts[n] = true
				}
				if ag {
					allGhost = true
				}
			case *ssa.Go, *ssa.Defer, *ssa.Send, *ssa.Select:
				all = true
				f.loopPrivAll = true
			case *ssa.RunDefers:
				all = true
				allGhost = true
				f.loopPrivAll = true
			}
		}
	}
	return
}

func storeStructType(addr ssa.Value) types.Type {
	if fa, ok := addr.(*ssa.FieldAddr); ok {
		return pointee(fa.X.Type())
	}
	if pt := pointee(addr.Type()); pt != nil {
		if _, ok := pt.Underlying().(*types.Struct); ok {
			return pt
		}
	}
	return nil
}

// storeTargets lists heap names a store through addr may write.
func (tr *Tr) storeTargets(addr ssa.Value) []string {
	var out []string
	var walkType func(t types.Type, prefix string, structT types.Type, field string)
	walkType = func(t types.Type, prefix string, structT types.Type, field string) {
		switch kindOf(t) {
		case VStruct:
			s := t.Underlying().(*types.Struct)
			for i := 0; i < s.NumFields(); i++ {
				walkType(s.Field(i).Type(), "", t, s.Field(i).Name())
			}
		case VSlice:
			if structT != nil {
				out = append(out, fieldHeapName(structT, field)+"#base", fieldHeapName(structT, field)+"#len")
			} else {
				out = append(out, "C/"+typeKey(t)+"#base", "C/"+typeKey(t)+"#len")
			}
		default:
			if structT != nil {
				out = append(out, fieldHeapName(structT, field))
			} else {
				out = append(out, "C/"+typeKey(t))
			}
		}
	}
	if fa, ok := addr.(*ssa.FieldAddr); ok {
		st := pointee(fa.X.Type())
		fl := st.Underlying().(*types.Struct).Field(fa.Field)
		walkType(fl.Type(), "", st, fl.Name())
		return out
	}
	walkType(pointee(addr.Type()), "", nil, "")
	return out
}

func (f *Frame) enterLoop(li *loopInfo) {
	tr := f.tr
	b := li.header
	// 1. invariant on entry
	var ls *LoopSpec
	if f.contract != nil {
		ls = f.contract.Loops[li.ordinal]
	}
	if ls != nil {
		env := f.envAt(b)
		for i, c := range ls.Invs {
			t, err := env.boolExpr(c.E)
			if err != nil {
				tr.errorf("%s: loop %d invariant: %v", f.fn.Name(), li.ordinal, err)
				continue
			}
			lbl := c.Label
			if lbl == "" {
				lbl = fmt.Sprintf("loop%d.inv%d", li.ordinal, i+1)
			}
			f.addSite(c.Prop, lbl, "invariant", c.Src, "entry", sAnd(f.cur.R, sNot(t)))
		}
	}
	// 2. havoc
	names, all, ghosts, allGhost := f.loopWrites(li)
	var hn []string
	for n := range names {
		hn = append(hn, n)
	}
	sort.Strings(hn)
	st := f.cur.St
	if all {
		hn = nil
		for k := range tr.sorts {
			if !isGhostName(k) && !isFlagName(k) && !tr.eng.immutableHeap(k) {
				if tr.isPrivateHeap(k) && !f.loopPrivAll && !names[k] {
					continue
				}
				hn = append(hn, k)
			}
		}
		sort.Strings(hn)
	}
	olds := map[string]string{}
	for _, n := range hn {
		srt := tr.sorts[n]
		if srt == "" {
			// heap not yet known: will be created lazily as initial, which is wrong inside a loop that writes it;
			// force declaration now.
			srt = arrSort("Int")
			continue
		}
		olds[n] = tr.stateGet(st, n, srt)
		st.H[n] = tr.freshConst("lh/"+n, srt)
	}
	// preserve allocs that are neither stored to in the loop nor escaped before a havocking instruction of the loop
	for fr := f; fr != nil; fr = fr.parentFrame() {
		for _, ai := range fr.allocL {
			if ai.ref == "" {
				continue
			}
			keep := true
			if fr == f {
				if ai.always {
					keep = false
				}
				for _, s := range ai.stores {
					if li.body[s.Block().Index] {
						keep = false
					}
				}
				for _, e := range ai.escapes {
					// escaped at or before some instruction of the loop?
					for bi := range li.body {
						if e.Block().Index == bi || f.reach[e.Block().Index][bi] {
							keep = false
						}
					}
				}
			} else if fr.curInstr() != nil && fr.escapedBefore(ai, fr.curInstr()) {
				keep = false
			}
			if !keep {
				continue
			}
			for _, loc := range fr.allocLocs(ai) {
				if old, ok := olds[loc[0]]; ok {
					f.assume(sEq(sSel(st.H[loc[0]], loc[1]), sSel(old, loc[1])))
				}
			}
		}
	}
	var gl []string
	if allGhost {
		gl = append(gl, tr.eng.db.GhostOrder...)
	} else {
		for g := range ghosts {
			gl = append(gl, g)
		}
		sort.Strings(gl)
	}
	for _, g := range gl {
		gd := tr.eng.db.Ghosts[g]
		if gd == nil {
			continue
		}
		// automatic ghost-frame invariant: outside the keys the function may modify, the ghost equals its entry value
		if t := tr.ghostFrameTerm(g, st); t != "" {
			f.addSite(gd.Prop, fmt.Sprintf("loop%d.ghostframe.%s", li.ordinal, g), "invariant", "ghost "+g+" unchanged outside the function's modifies", "entry", sAnd(f.cur.R, sNot(t)))
		}
		srt := ghostSort(gd.Sort)
		tr.stateGet(st, "G/"+g, srt)
		st.H["G/"+g] = tr.freshConst("lg/"+g, srt)
		if t := tr.ghostFrameTerm(g, st); t != "" {
			f.assume(t)
		}
	}
	f.loopGhosts[li.header.Index] = gl
	// defer flags set inside the loop are rejected elsewhere
	for _, in := range b.Instrs {
		phi, ok := in.(*ssa.Phi)
		if !ok {
			break
		}
		f.vals[phi] = tr.freshVal(phi.Type(), "lphi/"+phi.Comment)
		// structural invariant of the compiler-generated range counter: every incoming value is the constant -1 or
		// the counter plus one, so it never drops below -1 (by induction over the iterations; nothing to discharge)
		if rangeCounter(phi) {
			tr.note("range counters (compiler-generated phi [-1, k+1]) are >= -1 by construction; not discharged by the solver")
			f.assume("(>= " + f.vals[phi].T + " (- 1))")
		}
	}
	// 3. assume invariant
	if ls != nil {
		env := f.envAt(b)
		for _, c := range ls.Invs {
			t, err := env.boolExpr(c.E)
			if err == nil {
				f.assume(t)
			}
		}
	}
	f.blockPP[b.Index] = f.cur
}

// closeLoop is called when a back edge is taken: check invariant preservation.
func (f *Frame) closeLoop(li *loopInfo, from *ssa.BasicBlock) {
	tr := f.tr
	for _, g := range f.loopGhosts[li.header.Index] {
		gd := tr.eng.db.Ghosts[g]
		if gd == nil {
			continue
		}
		if t := tr.ghostFrameTerm(g, f.cur.St); t != "" {
			f.addSite(gd.Prop, fmt.Sprintf("loop%d.ghostframe.%s", li.ordinal, g), "invariant", "ghost "+g+" unchanged outside the function's modifies", fmt.Sprintf("preserve@b%d", from.Index), sAnd(f.cur.R, sNot(t)))
		}
	}
	if f.contract == nil {
		return
	}
	ls := f.contract.Loops[li.ordinal]
	if ls == nil {
		return
	}
	// bind header phis to the values flowing along this back edge
	saved := map[ssa.Value]Val{}
	predIdx := -1
	for i, p := range li.header.Preds {
		if p == from {
			predIdx = i
		}
	}
	for _, in := range li.header.Instrs {
		phi, ok := in.(*ssa.Phi)
		if !ok {
			break
		}
		saved[phi] = f.vals[phi]
	}
	newVals := map[ssa.Value]Val{}
	for phi := range saved {
		newVals[phi] = f.val(phi.(*ssa.Phi).Edges[predIdx])
	}
	var decrOld string
	if ls.Decr != nil {
		// measure at loop head (with header values) — evaluated in header state
		envH := f.envAtWith(li.header, f.blockPP[li.header.Index].St)
		if v, err := envH.expr(ls.Decr.E); err == nil {
			decrOld = v.T
		} else {
			tr.errorf("%s: loop %d decreases: %v", f.fn.Name(), li.ordinal, err)
		}
	}
	for phi, v := range newVals {
		f.vals[phi] = v
	}
	env := f.envAtWith(li.header, f.cur.St)
	for i, c := range ls.Invs {
		t, err := env.boolExpr(c.E)
		if err != nil {
			tr.errorf("%s: loop %d invariant: %v", f.fn.Name(), li.ordinal, err)
			continue
		}
		lbl := c.Label
		if lbl == "" {
			lbl = fmt.Sprintf("loop%d.inv%d", li.ordinal, i+1)
		}
		f.addSite(c.Prop, lbl, "invariant", c.Src, fmt.Sprintf("preserve@b%d", from.Index), sAnd(f.cur.R, sNot(t)))
	}
	if ls.Decr != nil && decrOld != "" {
		if v, err := env.expr(ls.Decr.E); err == nil {
			lbl := ls.Decr.Label
			if lbl == "" {
				lbl = fmt.Sprintf("loop%d.decreases", li.ordinal)
			}
			goal := sAnd(f.cur.R, sNot(sAnd("(>= "+decrOld+" 0)", "(< "+v.T+" "+decrOld+")")))
			f.addSite(ls.Decr.Prop, lbl, "decreases", ls.Decr.Src, fmt.Sprintf("back@b%d", from.Index), goal)
		}
	}
	for phi, v := range saved {
		f.vals[phi] = v
	}
}

func (f *Frame) block(b *ssa.BasicBlock) {
	tr := f.tr
	for idx, in := range b.Instrs {
		f.curIdx = idx
		f.curIn = in
		if f.cur.R == "false" {
			break
		}
		switch x := in.(type) {
		case *ssa.Phi:
			// done
		case *ssa.Alloc:
			f.alloc(x)
		case *ssa.Store:
			f.storeInstr(x)
		case *ssa.UnOp:
			f.unop(x)
		case *ssa.BinOp:
			f.vals[x] = f.binop(x)
		case *ssa.FieldAddr:
			base := f.val(x.X)
			st := pointee(x.X.Type())
			fl := st.Underlying().(*types.Struct).Field(x.Field)
			f.nilCheck(base.T, "field address of nil pointer", in)
			k := kindOf(fl.Type())
			_, isArr := fl.Type().Underlying().(*types.Array)
			if k == VStruct || isArr {
				f.vals[x] = Val{K: VRef, T: tr.subRef(st, fl.Name(), base.T), Typ: x.Type()}
			} else {
				// pointer to a scalar field: represented by the object ref; loads/stores through it go to the field heap
				f.vals[x] = Val{K: VRef, T: base.T, Typ: x.Type()}
			}
		case *ssa.Field:
			sv := f.val(x.X)
			if sv.K == VStruct && x.Field < len(sv.Fs) {
				f.vals[x] = sv.Fs[x.Field]
			} else {
				f.vals[x] = tr.freshVal(x.Type(), "field")
			}
		case *ssa.Extract:
			tv := f.val(x.Tuple)
			if tv.K == VTuple && x.Index < len(tv.Fs) {
				f.vals[x] = tv.Fs[x.Index]
			} else {
				f.vals[x] = tr.freshVal(x.Type(), "extract")
			}
		case *ssa.IndexAddr:
			base := f.val(x.X)
			idxv := f.val(x.Index)
			var bref, blen string
			switch base.K {
			case VSlice:
				bref, blen = base.T, base.Len
			default: // pointer to array
				bref = base.T
				if at, ok := pointee(x.X.Type()).Underlying().(*types.Array); ok {
					blen = sInt(at.Len())
				}
				f.nilCheck(base.T, "index of nil array pointer", in)
			}
			if blen != "" {
				f.safety("index-in-range", sAnd("(<= 0 "+idxv.T+")", "(< "+idxv.T+" "+blen+")"), in)
			}
			f.vals[x] = Val{K: VRef, T: tr.elemRef(bref, idxv.T), Typ: x.Type()}
		case *ssa.Index:
			f.vals[x] = tr.freshVal(x.Type(), "index")
		case *ssa.Lookup:
			f.lookup(x)
		case *ssa.MapUpdate:
			f.mapUpdate(x)
		case *ssa.MakeMap:
			tr.nalloc++
			ref := sInt(int64(-tr.nalloc))
			f.vals[x] = Val{K: VMap, T: ref, Typ: x.Type()}
			if ai := f.mkmaps[x]; ai != nil {
				ai.ref = ref
				f.tr.ownRefs = append(f.tr.ownRefs, ref)
				ai.locs = nil
			}
			f.initMap(x.Type(), ref)
		case *ssa.MakeSlice:
			tr.nalloc++
			ref := sInt(int64(-tr.nalloc))
			l := f.val(x.Len)
			f.vals[x] = Val{K: VSlice, T: ref, Len: l.T, Typ: x.Type()}
		case *ssa.MakeChan:
			f.vals[x] = tr.freshVal(x.Type(), "chan")
		case *ssa.Slice:
			f.sliceInstr(x)
		case *ssa.Convert:
			f.vals[x] = f.convert(f.val(x.X), x.X.Type(), x.Type())
		case *ssa.ChangeType:
			v := f.val(x.X)
			v.Typ = x.Type()
			f.vals[x] = v
		case *ssa.ChangeInterface:
			v := f.val(x.X)
			v.Typ = x.Type()
			f.vals[x] = v
		case *ssa.MakeInterface:
			f.vals[x] = f.makeInterface(f.val(x.X), x.X.Type(), x.Type())
		case *ssa.TypeAssert:
			f.typeAssert(x)
		case *ssa.MakeClosure:
			fn := x.Fn.(*ssa.Function)
			var bs []Val
			for _, b := range x.Bindings {
				bs = append(bs, f.val(b))
			}
			tr.nalloc++
			f.vals[x] = Val{K: VFunc, T: sInt(int64(-tr.nalloc)), Typ: x.Type(), Prov: &FuncProv{Fn: fn, Bindings: bs, Spec: fn.String()}}
			tr.confFacts(f.vals[x].T, fn)
		case *ssa.Call:
			f.vals[x] = f.call(&x.Call, x, x.Type())
		case *ssa.Defer:
			f.deferInstr(x)
		case *ssa.Go:
			f.goInstr(x)
		case *ssa.RunDefers:
			f.runDefers(x)
		case *ssa.Return:
			var rs []Val
			for _, r := range x.Results {
				rs = append(rs, f.val(r))
			}
			f.rets = append(f.rets, retRec{pp: PP{R: f.cur.R, St: f.cur.St.clone()}, results: rs, instr: x, sig: f.siteSig(b)})
			return
		case *ssa.Jump:
			f.edge(b, b.Succs[0], f.cur)
			return
		case *ssa.If:
			c := f.val(x.Cond)
			f.edge(b, b.Succs[0], PP{R: tr.define("R", "Bool", sAnd(f.cur.R, c.T)), St: f.cur.St})
			f.edge(b, b.Succs[1], PP{R: tr.define("R", "Bool", sAnd(f.cur.R, sNot(c.T))), St: f.cur.St})
			return
		case *ssa.Panic:
			f.safety("no-panic", "false", in)
			return
		case *ssa.Range:
			f.vals[x] = Val{K: VOpaque, T: tr.freshConst("range", "Int"), Typ: x.Type()}
		case *ssa.Next:
			f.vals[x] = tr.freshVal(x.Type(), "next")
		case *ssa.Send:
			tr.note("channel send treated as no-op on modelled state in " + f.fn.String())
		case *ssa.Select:
			f.vals[x] = tr.freshVal(x.Type(), "select")
			tr.note("select treated as nondeterministic choice in " + f.fn.String())
		case *ssa.DebugRef:
		case *ssa.SliceToArrayPointer:
			f.vals[x] = tr.freshVal(x.Type(), "s2a")
		default:
			tr.errorf("%s: unsupported instruction %T: %s", f.fn.Name(), in, in)
			if v, ok := in.(ssa.Value); ok {
				f.vals[v] = tr.freshVal(v.Type(), "unsupported")
			}
		}
	}
}

func (f *Frame) edge(from, to *ssa.BasicBlock, pp PP) {
	if li, ok := f.loops[to.Index]; ok && to.Dominates(from) {
		// back edge
		saved := f.cur
		f.cur = PP{R: pp.R, St: pp.St.clone()}
		f.closeLoop(li, from)
		f.cur = saved
		return
	}
	f.out[[2]int{from.Index, to.Index}] = PP{R: pp.R, St: pp.St.clone()}
}

func (f *Frame) alloc(x *ssa.Alloc) {
	tr := f.tr
	tr.nalloc++
	ref := sInt(int64(-tr.nalloc))
	ai := f.allocs[x]
	ai.ref = ref
	tr.ownRefs = append(tr.ownRefs, ref)
	ai.locs = nil
	f.vals[x] = Val{K: VRef, T: ref, Typ: x.Type()}
	// zero-initialise
	pt := pointee(x.Type())
	if _, isArr := pt.Underlying().(*types.Array); isArr {
		return
	}
	tr.storeNoInvalidate(f.cur.St, pt, ref, tr.zeroVal(pt))
	for _, gn := range tr.eng.db.GhostOrder {
		g := tr.eng.db.Ghosts[gn]
		if g.ZeroOnAlloc != "" && g.ZeroOnAlloc == typeKey(pt) {
			srt := ghostSort(g.Sort)
			cur := tr.stateGet(f.cur.St, "G/"+g.Name, srt)
			tr.stateSet(f.cur.St, "G/"+g.Name, srt, tr.define("gz", srt, sSto(cur, ref, ghostDefault(g.Sort))))
		}
	}
}

func (tr *Tr) storeNoInvalidate(st *State, t types.Type, ref string, v Val) {
	saved := tr.eng.db.GhostOrder
	tr.eng.db.GhostOrder = nil
	tr.store(st, t, ref, v)
	tr.eng.db.GhostOrder = saved
}

func (f *Frame) storeInstr(x *ssa.Store) {
	tr := f.tr
	addr := f.val(x.Addr)
	v := f.val(x.Val)
	f.nilCheck(addr.T, "store through nil pointer", x)
	if fa, ok := x.Addr.(*ssa.FieldAddr); ok {
		st := pointee(fa.X.Type())
		fl := st.Underlying().(*types.Struct).Field(fa.Field)
		f.guardCheck(fa, st, fl, x)
		k := kindOf(fl.Type())
		_, isArr := fl.Type().Underlying().(*types.Array)
		if k != VStruct && !isArr {
			tr.storeField(f.cur.St, st, fl, addr.T, v)
			tr.invalidateGhosts(f.cur.St, st, addr.T)
			return
		}
	}
	tr.store(f.cur.St, pointee(x.Addr.Type()), addr.T, v)
}

func (f *Frame) unop(x *ssa.UnOp) {
	tr := f.tr
	v := f.val(x.X)
	switch x.Op {
	case token.MUL: // load
		if g, ok := x.X.(*ssa.Global); ok {
			f.vals[x] = tr.globalVal(g)
			return
		}
		f.nilCheck(v.T, "load through nil pointer", x)
		if fa, ok := x.X.(*ssa.FieldAddr); ok {
			st := pointee(fa.X.Type())
			fl := st.Underlying().(*types.Struct).Field(fa.Field)
			f.guardCheck(fa, st, fl, x)
			k := kindOf(fl.Type())
			_, isArr := fl.Type().Underlying().(*types.Array)
			if k != VStruct && !isArr {
				f.vals[x] = tr.loadField(f.cur.St, st, fl, v.T)
				return
			}
		}
		lv := tr.load(f.cur.St, pointee(x.X.Type()), v.T)
		f.vals[x] = lv
	case token.NOT:
		f.vals[x] = Val{K: VBool, T: sNot(v.T), Typ: x.Type()}
	case token.SUB:
		if v.K == VReal {
			f.vals[x] = Val{K: VReal, T: "(- " + v.T + ")", Typ: x.Type()}
		} else {
			f.vals[x] = Val{K: VInt, T: "(- " + v.T + ")", Typ: x.Type()}
		}
	case token.ARROW:
		f.vals[x] = tr.freshVal(x.Type(), "recv")
		tr.note("channel receive treated as fresh value in " + f.fn.String())
	case token.XOR:
		f.vals[x] = tr.freshVal(x.Type(), "bitnot")
	default:
		f.vals[x] = tr.freshVal(x.Type(), "unop")
	}
}

// globalVal: package-level variables are treated as constants (assumption: not reassigned after init).
func (tr *Tr) globalVal(g *ssa.Global) Val {
	t := pointee(g.Type())
	name := "glob/" + g.Pkg.Pkg.Path() + "." + g.Name()
	k := kindOf(t)
	switch k {
	case VStruct, VSlice, VTuple:
		key := "globval:" + name
		_ = key
		return tr.freshValNamed(t, name)
	}
	c := tr.declare(name, kindSort(k))
	if k == VIface && types.Identical(t, types.Universe.Lookup("error").Type()) {
		tr.eng.noteErrGlobal(tr, c)
	}
	tr.note("package-level variable " + g.Pkg.Pkg.Path() + "." + g.Name() + " treated as constant")
	return Val{K: k, T: c, Typ: t}
}

func (tr *Tr) freshValNamed(t types.Type, name string) Val {
	k := kindOf(t)
	switch k {
	case VStruct:
		st := t.Underlying().(*types.Struct)
		v := Val{K: VStruct, Typ: t}
		for i := 0; i < st.NumFields(); i++ {
			v.Fs = append(v.Fs, tr.freshValNamed(st.Field(i).Type(), name+"."+st.Field(i).Name()))
		}
		return v
	case VSlice:
		return Val{K: VSlice, T: tr.declare(name+"#base", "Int"), Len: tr.declare(name+"#len", "Int"), Typ: t}
	}
	return Val{K: k, T: tr.declare(name, kindSort(k)), Typ: t}
}

func (f *Frame) nilCheck(ref string, what string, in ssa.Instruction) {
	if strings.HasPrefix(ref, "(- ") { // fresh allocation
		return
	}
	f.safety("no-nil-deref", "(not (= "+ref+" 0))", in)
	// continue under the assumption (a nil dereference panics)
	f.assume("(not (= " + ref + " 0))")
}

// safety registers a zero-annotation safety condition at the current point.
func (f *Frame) safety(label, cond string, in ssa.Instruction) {
	tr := f.tr
	c := tr.contract
	if c == nil || len(c.Safety) == 0 {
		return
	}
	if cond == "true" {
		return
	}
	if !safetyEnabled(c, label) {
		return
	}
	what := fmt.Sprintf("%s in %s: %s", label, f.fn.Name(), instrStr(in))
	for _, p := range c.Safety {
		if !strings.HasPrefix(p, "C") {
			continue
		}
		f.addSiteW(p, label, "safety", "", f.siteSigInstr(in), sAnd(f.cur.R, f.guard, sNot(cond)), what)
	}
}

func instrStr(in ssa.Instruction) string {
	s := in.String()
	if len(s) > 120 {
		s = s[:120]
	}
	return s
}

func (f *Frame) addSite(prop, label, kind, src, sig, goal string) {
	f.addSiteW(prop, label, kind, src, sig, goal, "")
}

func (f *Frame) addSiteW(prop, label, kind, src, sig, goal, what string) {
	tr := f.tr
	if prop == "" {
		prop = "C00"
	}
	name := prop + "." + tr.topShort + "." + label
	o := tr.obls[name]
	if o == nil {
		o = &Obl{Prop: prop, Func: tr.topShort, Label: label, Kind: kind, Src: src, tr: tr}
		tr.obls[name] = o
		tr.oblOrder = append(tr.oblOrder, name)
	}
	if goal == "false" {
		// trivially discharged; keep a site so that the obligation exists
		o.Sites = append(o.Sites, &Site{Sig: sig, Goal: "false", What: what})
		return
	}
	if !f.top {
		sig = "in " + f.fn.Name() + ": " + sig
	}
	// de-duplicate signatures
	base := sig
	k := 1
	for {
		dup := false
		for _, s := range o.Sites {
			if s.Sig == sig {
				dup = true
				break
			}
		}
		if !dup {
			break
		}
		k++
		sig = fmt.Sprintf("%s/%d", base, k)
	}
	o.Sites = append(o.Sites, &Site{Sig: sig, Goal: goal, What: what})
}

// siteSig names a return block by the nearest dominating call and the branch shape — never by line number.
func (f *Frame) siteSig(b *ssa.BasicBlock) string {
	for x := b; x != nil; x = x.Idom() {
		for i := len(x.Instrs) - 1; i >= 0; i-- {
			in := x.Instrs[i]
			if nm, ok := f.callName[in]; ok {
				if _, isDefer := in.(*ssa.Defer); isDefer {
					continue
				}
				if strings.HasPrefix(nm, "Background#") || strings.HasPrefix(nm, "ToSlash#") {
					continue
				}
				if x == b {
					return "return after " + nm
				}
				return "return after " + nm + " via " + b.Comment
			}
		}
	}
	return "return in " + b.Comment
}

func (f *Frame) siteSigInstr(in ssa.Instruction) string {
	if nm, ok := f.callName[in]; ok {
		return "at " + nm
	}
	b := in.Block()
	s := f.siteSig(b)
	return strings.Replace(s, "return ", "", 1) + " [" + opName(in) + "]"
}

func opName(in ssa.Instruction) string {
	s := fmt.Sprintf("%T", in)
	return strings.TrimPrefix(s, "*ssa.")
}

// safetyEnabled: `safety C10` enables the default sweep (explicit panics, failed type assertions, nil map writes,
// nil function calls); `safety C10 nil bounds div` opt into the noisier classes.
func safetyEnabled(c *Contract, label string) bool {
	has := func(w string) bool {
		for _, s := range c.Safety {
			if s == w {
				return true
			}
		}
		return false
	}
	switch label {
	case "no-nil-call":
		return has("nilcall")
	case "no-nil-map-write":
		return has("nilmap")
	case "no-nil-deref":
		return has("nil")
	case "index-in-range":
		return has("bounds")
	case "no-div-by-zero":
		return has("div")
	}
	return true
}

// isPrivateHeap: field heap of an unexported field of a named struct type declared in the package of the function
// under verification.
func (tr *Tr) isPrivateHeap(k string) bool {
	if tr.privPkg == "" || !strings.HasPrefix(k, "F/"+tr.privPkg+".") {
		return false
	}
	rest := k[len("F/"+tr.privPkg+"."):]
	i := strings.Index(rest, "/")
	if i < 0 || strings.Contains(rest[:i], "/") {
		return false
	}
	field := rest[i+1:]
	return len(field) > 0 && field[0] >= 'a' && field[0] <= 'z'
}

// closureMayWriteBinding: can the closure (or closures it creates) write through, or leak, the captured cell v?
func closureMayWriteBinding(mc *ssa.MakeClosure, v ssa.Value) bool {
	fn, ok := mc.Fn.(*ssa.Function)
	if !ok {
		return true
	}
	for i, b := range mc.Bindings {
		if b != v {
			continue
		}
		if i >= len(fn.FreeVars) {
			return true
		}
		if freeVarMayBeWritten(fn.FreeVars[i], 0) {
			return true
		}
	}
	return false
}

func freeVarMayBeWritten(fv ssa.Value, depth int) bool {
	if depth > 4 {
		return true
	}
	refs := fv.Referrers()
	if refs == nil {
		return false
	}
	for _, r := range *refs {
		switch x := r.(type) {
		case *ssa.UnOp: // load
		case *ssa.DebugRef:
		case *ssa.MakeClosure:
			inner, ok := x.Fn.(*ssa.Function)
			if !ok {
				return true
			}
			for i, b := range x.Bindings {
				if b == fv {
					if i >= len(inner.FreeVars) || freeVarMayBeWritten(inner.FreeVars[i], depth+1) {
						return true
					}
				}
			}
		default:
			return true
		}
	}
	return false
}

// ghostFrameTerm: "ghost g in state st equals its entry value outside the keys listed in the top contract's modifies";
// "" when the contract lets the function modify g entirely.
func (tr *Tr) ghostFrameTerm(g string, st *State) string {
	c := tr.contract
	gd := tr.eng.db.Ghosts[g]
	if c == nil || gd == nil || tr.topFrame == nil || gd.NoFrame {
		return ""
	}
	var keys []*Expr
	for _, m := range c.Modifies {
		if strings.HasPrefix(m, "F/") || strings.HasPrefix(m, "C/") {
			continue
		}
		ex, err := ParseExpr(m)
		if err != nil {
			continue
		}
		if ex.K == EIdent && ex.Name == g {
			return ""
		}
		if ex.K == EIndex && ex.A.K == EIdent && ex.A.Name == g {
			keys = append(keys, ex.Bx)
		}
	}
	srt := ghostSort(gd.Sort)
	initT := tr.stateGet(tr.init, "G/"+g, srt)
	cur := tr.stateGet(st, "G/"+g, srt)
	allowed := initT
	env := tr.topFrame.contractEnvTop(c, tr.topArgs, tr.topBinds, nil)
	env.cur = tr.init
	for _, k := range keys {
		kv, err := env.expr(k)
		if err != nil {
			return ""
		}
		allowed = sSto(allowed, kv.T, sSel(cur, kv.T))
	}
	allowed = tr.allowFreshKeys(allowed, cur, gd)
	return sEq(cur, allowed)
}

// rootAlloc follows FieldAddr/IndexAddr chains to the local allocation an address is derived from (nil otherwise).
func rootAlloc(addr ssa.Value) *ssa.Alloc {
	for i := 0; i < 8; i++ {
		switch x := addr.(type) {
		case *ssa.Alloc:
			return x
		case *ssa.FieldAddr:
			addr = x.X
		case *ssa.IndexAddr:
			addr = x.X
		default:
			return nil
		}
	}
	return nil
}

// guardCheck: a field declared `guarded T.f by lock` may only be read or written while that lock is held by the current
// thread (obligation of the guard's property; accesses to objects allocated by this activation are exempt).
func (f *Frame) guardCheck(fa *ssa.FieldAddr, st types.Type, fl *types.Var, in ssa.Instruction) {
	tr := f.tr
	g, ok := tr.eng.db.Guards[typeKey(st)+"."+fl.Name()]
	if !ok || (tr.prop != "" && tr.prop != g.Prop) {
		return
	}
	if _, fresh := fa.X.(*ssa.Alloc); fresh {
		return
	}
	base := f.val(fa.X)
	s := st.Underlying().(*types.Struct)
	var lockRef string
	for i := 0; i < s.NumFields(); i++ {
		if s.Field(i).Name() == g.LockField {
			if g.Addr {
				lockRef = tr.subRef(st, g.LockField, base.T)
			} else {
				lockRef = tr.loadField(f.cur.St, st, s.Field(i), base.T).T
			}
		}
	}
	if lockRef == "" {
		tr.errorf("guarded %s.%s: no lock field %s", typeKey(st), fl.Name(), g.LockField)
		return
	}
	held := sSel(tr.stateGet(f.cur.St, "G/mutexHeld", ghostSort("map[ref]bool")), lockRef)
	what := "access to " + shortTypeKey(st) + "." + fl.Name() + " without holding " + g.LockField
	f.addSiteW(g.Prop, "guarded."+shortTypeKey(st)+"."+fl.Name(), "guarded-by", "field "+fl.Name()+" is guarded by "+g.LockField, f.siteSigInstr(in), sAnd(f.cur.R, sNot(held)), what)
}

// addCover registers a reachability obligation: the query is expected to be satisfiable (the annotated call can be
// reached with the condition true). An unsatisfiable query means the path was removed.
func (f *Frame) addCover(prop, label, src, sig, goal string) {
	tr := f.tr
	if prop == "" {
		prop = "C00"
	}
	name := prop + "." + tr.topShort + "." + label
	o := tr.obls[name]
	if o == nil {
		o = &Obl{Prop: prop, Func: tr.topShort, Label: label, Kind: "cover", Src: src, tr: tr}
		tr.obls[name] = o
		tr.oblOrder = append(tr.oblOrder, name)
	}
	o.Sites = append(o.Sites, &Site{Sig: sig, Goal: goal, Expect: "sat", What: "must be reachable"})
}

// rangeCounter reports whether phi is the hidden index of a `for range` over a slice, array or string index loop as
// go/ssa builds it: phi [-1, phi+1].
func rangeCounter(phi *ssa.Phi) bool {
	if phi.Comment != "rangeindex" {
		return false
	}
	for _, e := range phi.Edges {
		switch x := e.(type) {
		case *ssa.Const:
			if x.Value == nil || x.Value.Kind() != constant.Int {
				return false
			}
			if v, ok := constant.Int64Val(x.Value); !ok || v != -1 {
				return false
			}
		case *ssa.BinOp:
			c, isC := x.Y.(*ssa.Const)
			if x.Op != token.ADD || x.X != ssa.Value(phi) || !isC || c.Value == nil {
				return false
			}
			if v, ok := constant.Int64Val(c.Value); !ok || v != 1 {
				return false
			}
		default:
			return false
		}
	}
	return true
}
