package main

// Replay of solver models on the real code (go test -overlay). Templates are registered per function family.

func tryReplay(cr *checkRun, r *OblResult, sr *SiteResult, rep map[string]interface{}) (bool, string) {
	if t := replayTemplates[topName(r.Obl.tr)]; t != nil {
		return t(cr, r, sr, rep)
	}
	return false, "no replay template for this function family; model attached in solver_output"
}

type replayFn func(cr *checkRun, r *OblResult, sr *SiteResult, rep map[string]interface{}) (bool, string)

var replayTemplates = map[string]replayFn{}
