package main

// Replay of solver counterexamples on the real code (go test -overlay, nothing written into the repo). A template exists
// for one family so far: lock-balance obligations of the operations layer, where the counterexample's path (which seam
// fails) is scripted into fakes and the drive is probed afterwards. Everything else reports no-failing-input-found and
// attaches the solver's model.

import (
	"encoding/json"
	"os"
	"os/exec"
	"path/filepath"
	"regexp"
	"strings"
)

type replayFn func(cr *checkRun, r *OblResult, sr *SiteResult, rep map[string]interface{}) (bool, string)

func tryReplay(cr *checkRun, r *OblResult, sr *SiteResult, rep map[string]interface{}) (bool, string) {
	if os.Getenv("STFS_NO_REPLAY") != "" {
		return false, "replay switched off for this run (STFS_NO_REPLAY)"
	}
	fn := topName(r.Obl.tr)
	for suffix, op := range map[string]string{
		"operations.Operations).Delete":  "Delete",
		"operations.Operations).Move":    "Move",
		"operations.Operations).Update":  "Update",
		"operations.Operations).archive": "Archive",
		"operations.Operations).Archive": "Archive",
		"operations.Operations).Restore": "Restore",
	} {
		if strings.HasSuffix(fn, suffix) && (r.Obl.Label == "drive-free" || r.Obl.Label == "ops-free" || strings.HasPrefix(r.Obl.Label, "pre.") || strings.HasPrefix(r.Obl.Label, "frame.")) {
			if ok, msg := replayOpsFault(op, sr, rep); ok {
				return ok, msg
			}
		}
	}
	if bat := batteryFor(r.Obl.Prop); bat != "" {
		return replayBattery(bat, rep)
	}
	return false, "no replay template for this function family; the solver's model is attached in solver_output"
}

// batteryFor: which scenario battery instantiates the inputs a property's clauses quantify over.
//
//	"<template>:<ENV>=<value>[,<value>...]"
func batteryFor(prop string) string {
	return map[string]string{
		"C03": "fs_battery_test.go:VERIF_BATTERY=roundtrip",
		"C06": "fs_battery_test.go:VERIF_BATTERY=torn",
		"C16": "fs_battery_test.go:VERIF_BATTERY=torn;fs_model_test.go:VERIF_MODEL=rebuild",
		"C17": "fs_model_test.go:VERIF_MODEL=foreign,rebuild",
		"C04": "fs_battery_test.go:VERIF_BATTERY=positions",
		"C05": "fs_battery_test.go:VERIF_BATTERY=appendonly",
		"C08": "fs_battery_test.go:VERIF_BATTERY=tamper",
		"C09": "fs_battery_test.go:VERIF_BATTERY=ciphertext",
		"C15": "fs_battery_test.go:VERIF_BATTERY=readonly",
		"C07": "fs_model_test.go:VERIF_MODEL=reindex",
		"C11": "race!fs_model_test.go:VERIF_MODEL=concurrent",
		"C10": "race!fs_model_test.go:VERIF_MODEL=concurrent",
		"C01": "fs_model_test.go:VERIF_MODEL=rebuild",
		"C02": "fs_model_test.go:VERIF_MODEL=tree,random",
		"C12": "fs_model_test.go:VERIF_MODEL=tree,random",
		"C13": "fs_model_test.go:VERIF_MODEL=tree,random",
		"C14": "fs_model_test.go:VERIF_MODEL=file,flags",
	}[prop]
}

var batteryCache = map[string][2]string{}

// replayBattery: the failing clause talks about stream wiring, positions, cursors or ghost state, which has no direct
// rendering as one byte-level input; the family of inputs the clause quantifies over (pipeline configurations x size
// classes, cut offsets, histories x record sizes, handle-call sequences x flags) is instantiated on the real code, next
// to a reference where the property names one, and searched for a concrete failing input.
func replayBattery(bats string, rep map[string]interface{}) (bool, string) {
	if os.Getenv("STFS_NO_REPLAY") != "" {
		return false, "replay switched off for this run (STFS_NO_REPLAY)"
	}
	var cmds, outs, msgs []string
	for _, bat := range strings.Split(bats, ";") {
		ok, msg, cmd, out := replayOneBattery(bat)
		cmds = append(cmds, cmd)
		outs = append(outs, out)
		if ok {
			msgs = append(msgs, msg)
		}
	}
	rep["replay_cmd"] = strings.Join(cmds, " ; ")
	rep["replay_output"] = truncate(strings.Join(outs, "\n"), 8000)
	if len(msgs) == 0 {
		return false, "the scenario batteries (" + bats + ") ran on the real code and found no concrete failing input among their cases; the obligation still fails (model attached)"
	}
	return true, strings.Join(msgs, "; ")
}

func replayOneBattery(bat string) (bool, string, string, string) {
	race := strings.HasPrefix(bat, "race!")
	parts := strings.SplitN(strings.TrimPrefix(bat, "race!"), ":", 2)
	tmplName, envSpec := parts[0], parts[1]
	kv := strings.SplitN(envSpec, "=", 2)
	tmpl := filepath.Join(verifDir, "replay", "templates", tmplName)
	run := "TestVerifReplay_Battery$"
	if tmplName == "fs_model_test.go" {
		run = "TestVerifReplay_Model$"
	}
	script := "replay.sh"
	if race {
		script = "replay_race.sh"
	}
	cmdline := kv[0] + "=<" + kv[1] + "> /verif/tools/" + script + " " + repoDir() + " pkg/fs '" + run + "' " + tmpl
	if c, ok := batteryCache[bat]; ok {
		return c[0] != "", c[0], cmdline, c[1]
	}
	ov := map[string]map[string]string{"Replace": {filepath.Join(repoDir(), "pkg/fs", "zz_verif_"+tmplName): tmpl}}
	ovFile := filepath.Join(scratchDir(), "overlay_battery.json")
	b, _ := json.Marshal(ov)
	os.WriteFile(ovFile, b, 0o644)
	var lines []string
	var raw string
	for _, val := range strings.Split(kv[1], ",") {
		args := []string{"test", "-overlay", ovFile, "-v", "-vet=off", "-count=1", "-timeout", "300s", "-run", run, "./pkg/fs/"}
		if race {
			args = append([]string{"test", "-race"}, args[1:]...)
		}
		cmd := exec.Command("go", args...)
		cmd.Dir = repoDir()
		cmd.Env = append(os.Environ(), "GOFLAGS=-mod=mod", "GOPROXY=off", "GOSUMDB=off", "GOTOOLCHAIN=local", kv[0]+"="+val)
		out, _ := cmd.CombinedOutput()
		raw += string(out)
		for _, l := range strings.Split(string(out), "\n") {
			if strings.Contains(l, "FAILING-INPUT") || strings.HasPrefix(l, "panic:") || strings.Contains(l, "WARNING: DATA RACE") || strings.HasPrefix(l, "fatal error:") {
				lines = append(lines, strings.TrimSpace(l))
			}
		}
	}
	text := truncate(strings.Join(lines, "\n"), 6000)
	msg := ""
	if len(lines) > 0 {
		msg = "replayed on the real code: the " + envSpec + " battery finds concrete failing inputs, first: " + truncate(lines[0], 600)
	} else {
		text = truncate(raw, 1500)
	}
	batteryCache[bat] = [2]string{msg, text}
	return msg != "", msg, cmdline, text
}

var lastCallRe = regexp.MustCompile(`(?:after|at) ([A-Za-z_$0-9]+)#(\d+)`)

func faultFor(site string) string {
	m := lastCallRe.FindStringSubmatch(site)
	if m == nil {
		return ""
	}
	switch name := m[1]; name {
	case "GetHeader", "GetHeaderByLinkname", "GetHeaderChildren", "GetLastIndexedRecordAndBlock", "UpsertHeader", "UpdateHeaderMetadata", "MoveHeader", "DeleteHeader":
		return "persister:" + name + "#1"
	case "GetWriter", "CloseWriter", "GetReader", "CloseReader":
		return "backend:" + name
	case "cleanup":
		return "trailer"
	case "WriteHeader", "Copy", "CopyBuffer", "Flush", "Close":
		return "drivewrite#1"
	case "SignHeader", "Sign":
		return "badsign"
	case "EncryptHeader", "Encrypt":
		return "badencrypt"
	case "GetFile":
		return "src#1"
	case "Index":
		return "persister:UpsertHeader#1"
	}
	return ""
}

func replayOpsFault(op string, sr *SiteResult, rep map[string]interface{}) (bool, string) {
	fault := faultFor(sr.Site.Sig)
	if fault == "" {
		return false, "the failing path ends after a callee that cannot be made to fail from outside (no fault seam); model attached"
	}
	tmpl := filepath.Join(verifDir, "replay", "templates", "ops_fault_test.go")
	ov := map[string]map[string]string{"Replace": {filepath.Join(repoDir(), "pkg/operations", "zz_verif_ops_fault_test.go"): tmpl}}
	ovFile := filepath.Join(scratchDir(), "overlay_replay.json")
	b, _ := json.Marshal(ov)
	os.WriteFile(ovFile, b, 0o644)
	cmd := exec.Command("go", "test", "-overlay", ovFile, "-v", "-vet=off", "-count=1", "-timeout", "60s", "-run", "TestVerifReplay_OpsFault$", "./pkg/operations/")
	cmd.Dir = repoDir()
	cmd.Env = append(os.Environ(), "GOFLAGS=-mod=mod", "GOPROXY=off", "GOSUMDB=off", "GOTOOLCHAIN=local", "VERIF_OP="+op, "VERIF_FAULT="+fault)
	out, err := cmd.CombinedOutput()
	text := string(out)
	rep["replay_cmd"] = "VERIF_OP=" + op + " VERIF_FAULT=" + fault + " /verif/tools/replay.sh " + repoDir() + " pkg/operations 'TestVerifReplay_OpsFault$' " + tmpl
	rep["replay_output"] = truncate(text, 6000)
	if strings.Contains(text, "DRIVE-NOT-FREE") || strings.Contains(text, "HANG:") {
		return true, "replayed on the real code: " + op + " with fault " + fault + " leaves the drive locked (see replay_output)"
	}
	if err != nil {
		return false, "replay ran (" + op + ", fault " + fault + ") but failed for another reason; see replay_output"
	}
	return false, "replay ran (" + op + ", fault " + fault + ") and the real code released the drive on that particular input; the obligation still fails (model attached)"
}
