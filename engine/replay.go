package main

// Replay of solver counterexamples on the real code (go test -overlay, nothing written into the repo). A template exists
// for one family so far: lock-balance obligations of the operations layer, where the counterexample's path (which seam
// fails) is scripted into fakes and the drive is probed afterwards. Everything else reports no-failing-input-found and
// attaches the solver's model.

import (
	"encoding/json"
	"os"
	"os/exec"
	"path/filepath"
	"regexp"
	"strings"
)

type replayFn func(cr *checkRun, r *OblResult, sr *SiteResult, rep map[string]interface{}) (bool, string)

func tryReplay(cr *checkRun, r *OblResult, sr *SiteResult, rep map[string]interface{}) (bool, string) {
	fn := topName(r.Obl.tr)
	for suffix, op := range map[string]string{
		"operations.Operations).Delete":  "Delete",
		"operations.Operations).Move":    "Move",
		"operations.Operations).Update":  "Update",
		"operations.Operations).archive": "Archive",
		"operations.Operations).Archive": "Archive",
		"operations.Operations).Restore": "Restore",
	} {
		if strings.HasSuffix(fn, suffix) && (r.Obl.Label == "drive-free" || r.Obl.Label == "ops-free" || strings.HasPrefix(r.Obl.Label, "pre.") || strings.HasPrefix(r.Obl.Label, "frame.")) {
			return replayOpsFault(op, sr, rep)
		}
	}
	return false, "no replay template for this function family; the solver's model is attached in solver_output"
}

var lastCallRe = regexp.MustCompile(`(?:after|at) ([A-Za-z_$0-9]+)#(\d+)`)

func faultFor(site string) string {
	m := lastCallRe.FindStringSubmatch(site)
	if m == nil {
		return ""
	}
	switch name := m[1]; name {
	case "GetHeader", "GetHeaderByLinkname", "GetHeaderChildren", "GetLastIndexedRecordAndBlock", "UpsertHeader", "UpdateHeaderMetadata", "MoveHeader", "DeleteHeader":
		return "persister:" + name + "#1"
	case "GetWriter", "CloseWriter", "GetReader", "CloseReader":
		return "backend:" + name
	case "cleanup":
		return "trailer"
	case "WriteHeader", "Copy", "CopyBuffer", "Flush", "Close":
		return "drivewrite#1"
	case "SignHeader", "Sign":
		return "badsign"
	case "EncryptHeader", "Encrypt":
		return "badencrypt"
	case "GetFile":
		return "src#1"
	case "Index":
		return "persister:UpsertHeader#1"
	}
	return ""
}

func replayOpsFault(op string, sr *SiteResult, rep map[string]interface{}) (bool, string) {
	fault := faultFor(sr.Site.Sig)
	if fault == "" {
		return false, "the failing path ends after a callee that cannot be made to fail from outside (no fault seam); model attached"
	}
	tmpl := filepath.Join(verifDir, "replay", "templates", "ops_fault_test.go")
	ov := map[string]map[string]string{"Replace": {filepath.Join(repoDir(), "pkg/operations", "zz_verif_ops_fault_test.go"): tmpl}}
	ovFile := filepath.Join(scratchDir(), "overlay_replay.json")
	b, _ := json.Marshal(ov)
	os.WriteFile(ovFile, b, 0o644)
	cmd := exec.Command("go", "test", "-overlay", ovFile, "-v", "-vet=off", "-count=1", "-timeout", "60s", "-run", "TestVerifReplay_OpsFault$", "./pkg/operations/")
	cmd.Dir = repoDir()
	cmd.Env = append(os.Environ(), "GOFLAGS=-mod=mod", "GOPROXY=off", "GOSUMDB=off", "GOTOOLCHAIN=local", "VERIF_OP="+op, "VERIF_FAULT="+fault)
	out, err := cmd.CombinedOutput()
	text := string(out)
	rep["replay_cmd"] = "VERIF_OP=" + op + " VERIF_FAULT=" + fault + " /verif/tools/replay.sh " + repoDir() + " pkg/operations 'TestVerifReplay_OpsFault$' " + tmpl
	rep["replay_output"] = truncate(text, 6000)
	if strings.Contains(text, "DRIVE-NOT-FREE") || strings.Contains(text, "HANG:") {
		return true, "replayed on the real code: " + op + " with fault " + fault + " leaves the drive locked (see replay_output)"
	}
	if err != nil {
		return false, "replay ran (" + op + ", fault " + fault + ") but failed for another reason; see replay_output"
	}
	return false, "replay ran (" + op + ", fault " + fault + ") and the real code released the drive on that particular input; the obligation still fails (model attached)"
}
