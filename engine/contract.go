package main

// Contract files: `//@` lines in /repo/**/contracts_verif.go (guarded by build tag verif, comment-only)
// and in /verif/specs/*.spec (assumed contracts on dependencies + ghost vocabulary).

import (
	"bufio"
	"fmt"
	"os"
	"path/filepath"
	"regexp"
	"sort"
	"strconv"
	"strings"
)

type Clause struct {
	Also  []string // other properties whose proofs may assume this clause
	Prop  string
	Label string
	E     *Expr
	Src   string
	File  string
	Line  int
}

type LoopSpec struct {
	N    int
	Invs []Clause
	Decr *Clause
}

type AtCall struct {
	Callee string
	K      int // 0 = all
	Clause Clause
	Assume bool
	Cover  bool // the call must be reachable with the condition true (a satisfiable query is expected)
}

type Contract struct {
	Key         string
	Kind        string // func | extern | spec
	File        string
	Line        int
	ParamNames  []string
	ResultNames []string
	HasNames    bool
	Requires    []Clause
	Ensures     []Clause
	Modifies    []string
	ModAll      bool // modifies * (all heap; ghost only if listed)
	ParamSpecs  map[string]string
	ResultSpecs map[string]string
	Loops       map[int]*LoopSpec
	AtCalls     []AtCall
	Safety      []string // properties whose zero-annotation safety sweep covers this function
	Pure        bool
	NoInline    bool
	Thread      bool
	Props       map[string]bool
	Flags       []string
	Fresh       []string          // result names that are newly allocated objects nobody else references
	GhostSets   []GhostSet        // ghost assignments executed at every exit of the function
	Conforms    []string          // named specs this (anonymous) function is declared to satisfy
	MaybeSpecs  map[string]string // func-typed params whose spec applies only if the argument conforms
}

type GhostSet struct {
	Target *Expr // ghost or ghost[key]
	Value  Clause
}

type GhostDecl struct {
	Name string
	Sort string // bool | int | string | map[int]bool | map[int]int | map[int]string | map[string]...
	// InvalidatedBy: struct type full name; any store to a field of an object of that type resets the entry to Default
	InvalidatedBy string
	Prop          string
	NoFrame       bool   // history ghost: no frame obligations; callers treat it as havocked by every in-module callee under contract
	ZeroOnAlloc   string // struct type full name: a freshly allocated object of that type has the default ghost value
}

type FuncDecl struct {
	Name   string
	Params []string
	Result string
}

type Define struct {
	Name   string
	Params []QVar
	Result string
	Body   *Expr
}

type Guard struct {
	LockField string
	Addr      bool // the lock is the embedded mutex field itself (else: the field holds a *sync.Mutex)
	Prop      string
}

type Binds struct {
	Impl string
	Spec string
	File string
	Line int
	Prop string
}

type SpecDB struct {
	Contracts  map[string]*Contract
	FieldSpecs map[string]string // "pkg.T.f" -> spec key
	Ghosts     map[string]*GhostDecl
	GhostOrder []string
	Funcs      map[string]*FuncDecl
	Defines    map[string]*Define
	Axioms     []Clause
	Lemmas     []Clause
	Binds      []Binds
	Files      []string
	Immutable  map[string]bool  // "pkg.T.f" fields assumed never written after construction
	Guards     map[string]Guard // "pkg.T.f" -> lock that must be held when the field is read or written
}

func NewSpecDB() *SpecDB {
	return &SpecDB{
		Contracts:  map[string]*Contract{},
		FieldSpecs: map[string]string{},
		Ghosts:     map[string]*GhostDecl{},
		Funcs:      map[string]*FuncDecl{},
		Defines:    map[string]*Define{},
		Immutable:  map[string]bool{},
		Guards:     map[string]Guard{},
	}
}

var labelRe = regexp.MustCompile(`^\[([A-Za-z0-9_.\-:#]+)\]\s*`)

func parseClause(rest, prop, file string, line int) (Clause, error) {
	c := Clause{Prop: prop, File: file, Line: line}
	if i := strings.Index(prop, " also "); i >= 0 {
		c.Prop = prop[:i]
		c.Also = strings.Fields(prop[i+6:])
	}
	rest = strings.TrimSpace(rest)
	if m := labelRe.FindStringSubmatch(rest); m != nil {
		c.Label = m[1]
		rest = rest[len(m[0]):]
	}
	// strip trailing comment
	if i := strings.Index(rest, " // "); i >= 0 {
		rest = rest[:i]
	}
	c.Src = rest
	e, err := ParseExpr(rest)
	if err != nil {
		return c, fmt.Errorf("%s:%d: %v", file, line, err)
	}
	c.E = e
	return c, nil
}

// parseSig parses "Key(a, b) (r, err)" -> key, params, results, hasNames.
// The parameter list starts at the first '(' at depth 0 that directly follows an identifier character.
func parseSig(s string) (string, []string, []string, bool) {
	s = strings.TrimSpace(s)
	depth := 0
	start := -1
	for i := 0; i < len(s); i++ {
		c := s[i]
		if c == '(' {
			if depth == 0 && i > 0 && (isIdentChar(s[i-1])) {
				start = i
				break
			}
			depth++
		} else if c == ')' {
			depth--
		}
	}
	if start < 0 {
		return s, nil, nil, false
	}
	key := strings.TrimSpace(s[:start])
	rest := s[start:]
	k := strings.Index(rest, ")")
	if k < 0 {
		return s, nil, nil, false
	}
	params := splitNames(rest[1:k])
	rest = strings.TrimSpace(rest[k+1:])
	var results []string
	if strings.HasPrefix(rest, "(") && strings.HasSuffix(rest, ")") {
		results = splitNames(rest[1 : len(rest)-1])
	} else if rest != "" {
		results = splitNames(rest)
	}
	return key, params, results, true
}

func isIdentChar(c byte) bool {
	return c == '_' || c == '$' || c == ']' || (c >= '0' && c <= '9') || (c >= 'a' && c <= 'z') || (c >= 'A' && c <= 'Z')
}

func splitNames(s string) []string {
	var out []string
	for _, p := range strings.Split(s, ",") {
		p = strings.TrimSpace(p)
		if p == "" {
			continue
		}
		// allow "name type": keep only name
		f := strings.Fields(p)
		out = append(out, f[0])
	}
	return out
}

func qualify(pkgPath, name string) string {
	// name: Index | (*Operations).Delete | (Operations).X | (*Operations).Delete$1
	if pkgPath == "" {
		return name
	}
	if strings.HasPrefix(name, "(*") {
		return "(*" + pkgPath + "." + name[2:]
	}
	if strings.HasPrefix(name, "(") {
		return "(" + pkgPath + "." + name[1:]
	}
	return pkgPath + "." + name
}

func (db *SpecDB) LoadFile(file string, pkgPath string) error {
	f, err := os.Open(file)
	if err != nil {
		return err
	}
	defer f.Close()
	db.Files = append(db.Files, file)
	sc := bufio.NewScanner(f)
	sc.Buffer(make([]byte, 1<<20), 1<<20)
	var cur *Contract
	prop := ""
	fileProp := "" // set by an unindented `property` line; the default for every following contract block
	ln := 0
	isSpecFile := strings.HasSuffix(file, ".spec")
	var pending string
	pendingLine := 0
	topLevel := false
	process := func(text string, ln int) error {
		topLevel = !(strings.HasPrefix(text, "  ") || strings.HasPrefix(text, "\t"))
		text = strings.TrimSpace(text)
		if text == "" {
			return nil
		}
		fields := strings.Fields(text)
		kw := fields[0]
		rest := strings.TrimSpace(text[len(kw):])
		switch kw {
		case "ghost":
			// ghost name sort [invalidated_by T]
			if len(fields) < 3 {
				return fmt.Errorf("%s:%d: ghost needs name and sort", file, ln)
			}
			g := &GhostDecl{Name: fields[1], Sort: fields[2], Prop: strings.Fields(prop + " x")[0]}
			if prop == "" {
				g.Prop = ""
			}
			if len(fields) >= 5 && fields[3] == "invalidated_by" {
				g.InvalidatedBy = fields[4]
			}
			if len(fields) >= 5 && fields[3] == "zero_on_alloc" {
				g.ZeroOnAlloc = fields[4]
			}
			if len(fields) >= 4 && fields[3] == "noframe" {
				g.NoFrame = true
			}
			db.Ghosts[g.Name] = g
			db.GhostOrder = append(db.GhostOrder, g.Name)
			cur = nil
		case "function":
			// function name(sort, sort) sort
			i := strings.Index(rest, "(")
			j := strings.LastIndex(rest, ")")
			if i < 0 || j < i {
				return fmt.Errorf("%s:%d: bad function decl", file, ln)
			}
			fd := &FuncDecl{Name: strings.TrimSpace(rest[:i]), Result: strings.TrimSpace(rest[j+1:])}
			for _, p := range strings.Split(rest[i+1:j], ",") {
				p = strings.TrimSpace(p)
				if p == "" {
					continue
				}
				fs := strings.Fields(p)
				fd.Params = append(fd.Params, fs[len(fs)-1])
			}
			db.Funcs[fd.Name] = fd
			cur = nil
		case "define":
			// define name(x sort, y sort) sort = expr
			eq := strings.Index(rest, " = ")
			if eq < 0 {
				return fmt.Errorf("%s:%d: define needs ' = '", file, ln)
			}
			head, body := rest[:eq], rest[eq+3:]
			i := strings.Index(head, "(")
			j := strings.LastIndex(head, ")")
			d := &Define{Name: strings.TrimSpace(head[:i]), Result: strings.TrimSpace(head[j+1:])}
			for _, p := range strings.Split(head[i+1:j], ",") {
				fs := strings.Fields(strings.TrimSpace(p))
				if len(fs) == 2 {
					d.Params = append(d.Params, QVar{fs[0], fs[1]})
				}
			}
			e, err := ParseExpr(body)
			if err != nil {
				return fmt.Errorf("%s:%d: %v", file, ln, err)
			}
			d.Body = e
			db.Defines[d.Name] = d
			cur = nil
		case "lemma":
			cl, err := parseClause(rest, prop, file, ln)
			if err != nil {
				return err
			}
			db.Lemmas = append(db.Lemmas, cl)
			cur = nil
		case "axiom":
			c, err := parseClause(rest, prop, file, ln)
			if err != nil {
				return err
			}
			db.Axioms = append(db.Axioms, c)
			cur = nil
		case "field":
			// field pkg.T.f is Spec
			if len(fields) != 4 || fields[2] != "is" {
				return fmt.Errorf("%s:%d: field X is Spec", file, ln)
			}
			db.FieldSpecs[fields[1]] = fields[3]
			cur = nil
		case "guarded":
			// guarded pkg.T.f by lockField [addr]
			if len(fields) < 4 || fields[2] != "by" {
				return fmt.Errorf("%s:%d: guarded T.f by lockField [addr]", file, ln)
			}
			g := Guard{LockField: fields[3], Prop: strings.Fields(prop + " x")[0]}
			if len(fields) >= 5 && fields[4] == "addr" {
				g.Addr = true
			}
			db.Guards[fields[1]] = g
			cur = nil
		case "immutable":
			for _, n := range fields[1:] {
				db.Immutable[strings.TrimSuffix(n, ",")] = true
			}
			cur = nil
		case "binds":
			// binds Impl -> Spec
			parts := strings.Split(rest, "->")
			if len(parts) != 2 {
				return fmt.Errorf("%s:%d: binds Impl -> Spec", file, ln)
			}
			impl := strings.TrimSpace(parts[0])
			if !isSpecFile {
				impl = qualify(pkgPath, impl)
			}
			db.Binds = append(db.Binds, Binds{Impl: impl, Spec: strings.TrimSpace(parts[1]), File: file, Line: ln, Prop: prop})
			cur = nil
		case "func", "extern", "spec", "iface":
			key, ps, rs, has := parseSig(rest)
			if kw == "func" && !isSpecFile {
				key = qualify(pkgPath, key)
			}
			kind := kw
			if kw == "iface" {
				kind = "extern"
			}
			if old, ok := db.Contracts[key]; ok {
				cur = old // allow a contract to be continued in another block/file (e.g. per-property sections)
			} else {
				cur = &Contract{Key: key, Kind: kind, File: file, Line: ln, ParamSpecs: map[string]string{}, ResultSpecs: map[string]string{}, Loops: map[int]*LoopSpec{}, Props: map[string]bool{}}
				db.Contracts[key] = cur
			}
			if has {
				cur.ParamNames, cur.ResultNames, cur.HasNames = ps, rs, true
			}
			prop = fileProp
			if prop != "" {
				cur.Props[strings.Fields(prop)[0]] = true
			}
		case "property":
			prop = strings.TrimSpace(rest)
			if topLevel {
				fileProp = prop
				cur = nil
			}
			if cur != nil && prop != "" {
				cur.Props[strings.Fields(prop)[0]] = true
			}
		case "requires", "ensures":
			if cur == nil {
				return fmt.Errorf("%s:%d: %s outside a contract", file, ln, kw)
			}
			c, err := parseClause(rest, prop, file, ln)
			if err != nil {
				return err
			}
			if kw == "requires" {
				cur.Requires = append(cur.Requires, c)
			} else {
				cur.Ensures = append(cur.Ensures, c)
			}
		case "modifies":
			if cur == nil {
				return fmt.Errorf("%s:%d: modifies outside a contract", file, ln)
			}
			for _, m := range splitTopLevel(rest) {
				m = strings.TrimSpace(m)
				if m == "" {
					continue
				}
				if m == "*" {
					cur.ModAll = true
					continue
				}
				cur.Modifies = append(cur.Modifies, m)
			}
		case "param", "result", "maybe":
			if cur == nil || len(fields) != 4 || fields[2] != "is" {
				return fmt.Errorf("%s:%d: %s name is Spec", file, ln, kw)
			}
			if kw == "param" {
				cur.ParamSpecs[fields[1]] = fields[3]
			} else if kw == "maybe" {
				if cur.MaybeSpecs == nil {
					cur.MaybeSpecs = map[string]string{}
				}
				cur.MaybeSpecs[fields[1]] = fields[3]
			} else {
				cur.ResultSpecs[fields[1]] = fields[3]
			}
		case "loop":
			if cur == nil || len(fields) < 4 {
				return fmt.Errorf("%s:%d: loop N invariant|decreases e", file, ln)
			}
			n, err := strconv.Atoi(fields[1])
			if err != nil {
				return fmt.Errorf("%s:%d: loop ordinal: %v", file, ln, err)
			}
			ls := cur.Loops[n]
			if ls == nil {
				ls = &LoopSpec{N: n}
				cur.Loops[n] = ls
			}
			r := strings.TrimSpace(rest[len(fields[1]):])
			r2 := strings.TrimSpace(r[len(fields[2]):])
			c, err := parseClause(r2, prop, file, ln)
			if err != nil {
				return err
			}
			switch fields[2] {
			case "invariant":
				ls.Invs = append(ls.Invs, c)
			case "decreases":
				ls.Decr = &c
			default:
				return fmt.Errorf("%s:%d: loop N invariant|decreases", file, ln)
			}
		case "at":
			// at call Callee[#k] assert|assume e
			if cur == nil || len(fields) < 5 || fields[1] != "call" {
				return fmt.Errorf("%s:%d: at call Callee[#k] assert e", file, ln)
			}
			cal := fields[2]
			k := 0
			if i := strings.Index(cal, "#"); i >= 0 {
				k, _ = strconv.Atoi(cal[i+1:])
				cal = cal[:i]
			}
			idx := strings.Index(text, fields[3])
			c, err := parseClause(text[idx+len(fields[3]):], prop, file, ln)
			if err != nil {
				return err
			}
			cur.AtCalls = append(cur.AtCalls, AtCall{Callee: cal, K: k, Clause: c, Assume: fields[3] == "assume", Cover: fields[3] == "cover"})
		case "safety":
			if cur == nil {
				return fmt.Errorf("%s:%d: safety outside a contract", file, ln)
			}
			cur.Safety = append(cur.Safety, fields[1:]...)
			for _, p := range fields[1:] {
				if strings.HasPrefix(p, "C") {
					cur.Props[p] = true
				}
			}
		case "flags":
			if cur != nil {
				cur.Flags = append(cur.Flags, fields[1:]...)
			}
		case "fresh":
			if cur == nil {
				return fmt.Errorf("%s:%d: fresh outside a contract", file, ln)
			}
			cur.Fresh = append(cur.Fresh, fields[1:]...)
		case "ghostset":
			// ghostset g[k] := e
			if cur == nil {
				return fmt.Errorf("%s:%d: ghostset outside a contract", file, ln)
			}
			parts := strings.SplitN(rest, ":=", 2)
			if len(parts) != 2 {
				return fmt.Errorf("%s:%d: ghostset target := expr", file, ln)
			}
			te, err := ParseExpr(strings.TrimSpace(parts[0]))
			if err != nil {
				return fmt.Errorf("%s:%d: %v", file, ln, err)
			}
			cl, err := parseClause(parts[1], prop, file, ln)
			if err != nil {
				return err
			}
			cur.GhostSets = append(cur.GhostSets, GhostSet{Target: te, Value: cl})
		case "conforms":
			if cur == nil {
				return fmt.Errorf("%s:%d: conforms outside a contract", file, ln)
			}
			cur.Conforms = append(cur.Conforms, fields[1:]...)
			if prop != "" {
				cur.Props[prop] = true
			}
		case "pure":
			if cur != nil {
				cur.Pure = true
			}
		case "noinline":
			if cur != nil {
				cur.NoInline = true
			}
		case "thread":
			if cur != nil {
				cur.Thread = true
			}
		default:
			return fmt.Errorf("%s:%d: unknown contract keyword %q", file, ln, kw)
		}
		return nil
	}
	for sc.Scan() {
		ln++
		line := strings.TrimSpace(sc.Text())
		var text string
		if isSpecFile {
			if strings.HasPrefix(line, "#") || line == "" {
				if pending != "" {
					if err := process(pending, pendingLine); err != nil {
						return err
					}
					pending = ""
				}
				continue
			}
			text = strings.TrimPrefix(line, "//@")
		} else {
			if !strings.HasPrefix(line, "//@") {
				if pending != "" {
					if err := process(pending, pendingLine); err != nil {
						return err
					}
					pending = ""
				}
				continue
			}
			text = line[3:]
		}
		t := strings.TrimSpace(text)
		// continuation lines start with "\" marker: "//@     \ more text"
		if strings.HasPrefix(t, "\\") {
			pending += " " + strings.TrimSpace(t[1:])
			continue
		}
		if pending != "" {
			if err := process(pending, pendingLine); err != nil {
				return err
			}
		}
		// keep the indentation (after "//@" one space is the base level)
		pending = strings.TrimRight(strings.TrimPrefix(text, " "), " \t")
		if isSpecFile {
			pending = strings.TrimRight(sc.Text(), " \t")
		}
		pendingLine = ln
	}
	if pending != "" {
		if err := process(pending, pendingLine); err != nil {
			return err
		}
	}
	return sc.Err()
}

var pkgClauseRe = regexp.MustCompile(`(?m)^package\s+(\w+)`)

// LoadAll loads /verif/specs/*.spec and every contracts_verif.go below repoRoot.
func (db *SpecDB) LoadAll(repoRoot, modPath, specDir string) error {
	specs, _ := filepath.Glob(filepath.Join(specDir, "*.spec"))
	sort.Strings(specs)
	for _, s := range specs {
		if err := db.LoadFile(s, ""); err != nil {
			return err
		}
	}
	var files []string
	filepath.Walk(repoRoot, func(p string, info os.FileInfo, err error) error {
		if err != nil {
			return nil
		}
		if info.IsDir() && (info.Name() == ".git" || info.Name() == "node_modules") {
			return filepath.SkipDir
		}
		if !info.IsDir() && info.Name() == "contracts_verif.go" {
			files = append(files, p)
		}
		return nil
	})
	sort.Strings(files)
	defer db.expandGhostGroups()
	for _, f := range files {
		rel, _ := filepath.Rel(repoRoot, filepath.Dir(f))
		pkgPath := modPath
		if rel != "." {
			pkgPath = modPath + "/" + filepath.ToSlash(rel)
		}
		if err := db.LoadFile(f, pkgPath); err != nil {
			return err
		}
	}
	return nil
}

// expandGhostGroups rewrites `modifies ghosts(Cnn)` into the list of ghost variables owned by property Cnn.
func (db *SpecDB) expandGhostGroups() {
	for _, c := range db.Contracts {
		var out []string
		for _, m := range c.Modifies {
			if strings.HasPrefix(m, "ghosts(") && strings.HasSuffix(m, ")") {
				p := strings.TrimSuffix(strings.TrimPrefix(m, "ghosts("), ")")
				for _, g := range db.GhostOrder {
					if db.Ghosts[g].Prop == p {
						out = append(out, g)
					}
				}
				continue
			}
			out = append(out, m)
		}
		c.Modifies = out
	}
}

// splitTopLevel splits on commas that are not nested in parentheses, brackets or string literals.
func splitTopLevel(s string) []string {
	var out []string
	depth := 0
	inq := false
	start := 0
	for i := 0; i < len(s); i++ {
		switch s[i] {
		case '"':
			inq = !inq
		case '(', '[':
			if !inq {
				depth++
			}
		case ')', ']':
			if !inq {
				depth--
			}
		case ',':
			if !inq && depth == 0 {
				out = append(out, s[start:i])
				start = i + 1
			}
		}
	}
	out = append(out, s[start:])
	return out
}
