package main

import (
	"context"
	"fmt"
	"os"
	"os/exec"
	"path/filepath"
	"strings"
	"sync"
	"time"
)

type SolveResult struct {
	Status string // unsat | sat | unknown | timeout | error
	Solver string
	Secs   float64
	Output string
	Query  string
}

// symbolsOf lists the |quoted| symbols of an SMT text.
func symbolsOf(t string) []string {
	var out []string
	for i := 0; i < len(t); i++ {
		if t[i] == '"' {
			// skip string literal ("" is an escaped quote)
			i++
			for i < len(t) {
				if t[i] == '"' {
					if i+1 < len(t) && t[i+1] == '"' {
						i += 2
						continue
					}
					break
				}
				i++
			}
			continue
		}
		if t[i] == '|' {
			j := i + 1
			for j < len(t) && t[j] != '|' {
				j++
			}
			out = append(out, t[i:j+1])
			i = j
		}
	}
	return out
}

type slicer struct {
	declLine map[string]string   // symbol -> declaration line
	isFun    map[string]bool     // declared with arity > 0
	defLine  map[string]string   // symbol -> define-fun line
	defDeps  map[string][]string // symbol -> symbols used
	defOrder map[string]int
	factSyms [][]string
	nDefs    int
	nFacts   int
}

func (tr *Tr) slicerFor() *slicer {
	if tr.sl != nil && tr.sl.nDefs == len(tr.defs) && tr.sl.nFacts == len(tr.facts) && len(tr.sl.declLine) == len(tr.decls) {
		return tr.sl
	}
	sl := &slicer{declLine: map[string]string{}, isFun: map[string]bool{}, defLine: map[string]string{}, defDeps: map[string][]string{}, defOrder: map[string]int{}}
	for _, d := range tr.decls {
		syms := symbolsOf(d)
		if len(syms) == 0 {
			continue
		}
		sl.declLine[syms[0]] = d
		if strings.HasPrefix(d, "(declare-fun") && !strings.Contains(d, " () ") {
			sl.isFun[syms[0]] = true
		}
	}
	for i, d := range tr.defs {
		syms := symbolsOf(d)
		if len(syms) == 0 {
			continue
		}
		sl.defLine[syms[0]] = d
		sl.defDeps[syms[0]] = syms[1:]
		sl.defOrder[syms[0]] = i
	}
	for _, f := range tr.facts {
		sl.factSyms = append(sl.factSyms, symbolsOf(f))
	}
	sl.nDefs, sl.nFacts = len(tr.defs), len(tr.facts)
	tr.sl = sl
	return sl
}

// script builds the query for `goal`, sliced to its cone of influence: definitions reachable from the goal, and facts
// that (transitively) share a constant with it. Dropping unrelated facts only weakens the assumptions.
func (tr *Tr) script(goal string, models bool) string {
	sl := tr.slicerFor()
	cone := map[string]bool{}
	var work []string
	add := func(s string) {
		if !cone[s] {
			cone[s] = true
			work = append(work, s)
		}
	}
	drain := func() {
		for len(work) > 0 {
			s := work[len(work)-1]
			work = work[:len(work)-1]
			for _, d := range sl.defDeps[s] {
				add(d)
			}
		}
	}
	for _, s := range symbolsOf(goal) {
		add(s)
	}
	drain()
	inFact := make([]bool, len(tr.facts))
	for changed := true; changed; {
		changed = false
		for i, syms := range sl.factSyms {
			if inFact[i] {
				continue
			}
			hit := false
			nconst := 0
			for _, s := range syms {
				if sl.isFun[s] || strings.HasPrefix(s, "|!q") {
					continue
				}
				nconst++
				if cone[s] {
					hit = true
				}
			}
			if hit || nconst == 0 {
				inFact[i] = true
				changed = true
				for _, s := range syms {
					add(s)
				}
				drain()
			}
		}
	}
	var sb strings.Builder
	if models {
		sb.WriteString("(set-option :produce-models true)\n")
	}
	sb.WriteString("(set-logic ALL)\n")
	for _, d := range tr.decls {
		syms := symbolsOf(d)
		if len(syms) > 0 && cone[syms[0]] {
			sb.WriteString(d)
			sb.WriteByte('\n')
		}
	}
	for _, d := range tr.defs {
		syms := symbolsOf(d)
		if len(syms) > 0 && cone[syms[0]] {
			sb.WriteString(d)
			sb.WriteByte('\n')
		}
	}
	for i, f := range tr.facts {
		if inFact[i] {
			sb.WriteString("(assert " + f + ")\n")
		}
	}
	sb.WriteString("(assert " + goal + ")\n")
	sb.WriteString("(check-sat)\n")
	if models {
		sb.WriteString("(get-model)\n")
	}
	return sb.String()
}

type solverSpec struct {
	name string
	args func(file string, timeoutS int) []string
}

var solvers = map[string]solverSpec{
	"z3-new": {"z3-new", func(f string, t int) []string { return []string{fmt.Sprintf("-T:%d", t), f} }},
	"z3":     {"z3", func(f string, t int) []string { return []string{fmt.Sprintf("-T:%d", t), f} }},
	"cvc5": {"cvc5", func(f string, t int) []string {
		return []string{"--strings-exp", fmt.Sprintf("--tlimit=%d", t*1000), f}
	}},
}

var tmpDir string
var tmpOnce sync.Once
var queryCounter int
var queryMu sync.Mutex

func scratchDir() string {
	tmpOnce.Do(func() {
		base := os.Getenv("TMPDIR")
		if base == "" {
			base = "/tmp"
		}
		tmpDir, _ = os.MkdirTemp(base, "stfsvc-")
	})
	return tmpDir
}

func cleanupScratch() {
	if tmpDir != "" {
		os.RemoveAll(tmpDir)
	}
}

func runSolver(name, query string, timeoutS int) SolveResult {
	return runSolverCtx(context.Background(), name, query, timeoutS)
}

func runSolverCtx(parent context.Context, name, query string, timeoutS int) SolveResult {
	queryMu.Lock()
	queryCounter++
	n := queryCounter
	queryMu.Unlock()
	file := filepath.Join(scratchDir(), fmt.Sprintf("q%d.smt2", n))
	q := query
	if name == "cvc5" && strings.Contains(q, "(set-option :produce-models true)") {
		// cvc5 wants produce-models before set-logic: already the case
	}
	if err := os.WriteFile(file, []byte(q), 0o644); err != nil {
		return SolveResult{Status: "error", Solver: name, Output: err.Error()}
	}
	defer os.Remove(file)
	sp := solvers[name]
	ctx, cancel := context.WithTimeout(parent, time.Duration(timeoutS+5)*time.Second)
	defer cancel()
	start := time.Now()
	cmd := exec.CommandContext(ctx, sp.name, sp.args(file, timeoutS)...)
	out, _ := cmd.CombinedOutput()
	secs := time.Since(start).Seconds()
	text := string(out)
	first := strings.TrimSpace(strings.SplitN(text, "\n", 2)[0])
	st := "error"
	switch {
	case first == "unsat":
		st = "unsat"
	case first == "sat":
		st = "sat"
	case first == "unknown":
		st = "unknown"
	case first == "timeout" || strings.Contains(first, "timeout") || strings.Contains(text, "interrupted by timeout") || ctx.Err() != nil:
		st = "timeout"
	}
	return SolveResult{Status: st, Solver: name, Secs: secs, Output: text}
}

// solve races the solvers in `order` (first two concurrently, the third as a fallback) until one gives a definite answer.
func solve(query string, timeoutS int, order []string) SolveResult {
	type res struct{ r SolveResult }
	first := order
	var rest []string
	if len(order) > 2 {
		first, rest = order[:2], order[2:]
	}
	ch := make(chan SolveResult, len(first))
	ctx, cancel := context.WithCancel(context.Background())
	defer cancel()
	for _, s := range first {
		go func(s string) { ch <- runSolverCtx(ctx, s, query, timeoutS) }(s)
	}
	var last SolveResult
	total := 0.0
	for range first {
		r := <-ch
		if r.Secs > total {
			total = r.Secs
		}
		if r.Status == "unsat" || r.Status == "sat" {
			cancel()
			return r
		}
		if last.Status == "" || r.Status != "error" {
			last = r
		}
	}
	for _, s := range rest {
		r := runSolverCtx(ctx, s, query, timeoutS)
		total += r.Secs
		if r.Status == "unsat" || r.Status == "sat" {
			r.Secs = total
			return r
		}
	}
	last.Secs = total
	return last
}

func solverOrder(query string) []string {
	return []string{"z3-new", "cvc5", "z3"}
}

type job struct {
	query   string
	timeout int
	order   []string
	done    func(SolveResult)
}

func runJobs(jobs []job, workers int) {
	ch := make(chan job)
	var wg sync.WaitGroup
	for i := 0; i < workers; i++ {
		wg.Add(1)
		go func() {
			defer wg.Done()
			for j := range ch {
				r := solve(j.query, j.timeout, j.order)
				j.done(r)
			}
		}()
	}
	for _, j := range jobs {
		ch <- j
	}
	close(ch)
	wg.Wait()
}
