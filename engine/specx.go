package main

// Translation of contract expressions to SMT terms in a given environment.

import (
	"fmt"
	"go/constant"
	"go/types"
	"strings"

	"golang.org/x/tools/go/ssa"
)

type Env struct {
	f     *Frame
	vars  map[string]Val
	cur   *State
	old   *State
	bound map[string]Val
}

func (env *Env) clone() *Env {
	n := &Env{f: env.f, vars: env.vars, cur: env.cur, old: env.old, bound: map[string]Val{}}
	for k, v := range env.bound {
		n.bound[k] = v
	}
	return n
}

func (env *Env) boolExpr(e *Expr) (string, error) {
	v, err := env.expr(e)
	if err != nil {
		return "", err
	}
	if v.K != VBool {
		return "", fmt.Errorf("expression %s is not boolean", e)
	}
	return v.T, nil
}

func sortOfName(s string) (VK, string, error) {
	switch s {
	case "int", "ref":
		return VInt, "Int", nil
	case "bool":
		return VBool, "Bool", nil
	case "string":
		return VStr, "String", nil
	case "real":
		return VReal, "Real", nil
	case "any":
		return VIface, "Int", nil
	}
	return VInt, "", fmt.Errorf("unknown sort %q", s)
}

func (env *Env) expr(e *Expr) (Val, error) {
	tr := env.f.tr
	switch e.K {
	case EInt:
		return Val{K: VInt, T: e.Int}, nil
	case EStr:
		return Val{K: VStr, T: smtStr(e.Str)}, nil
	case EBool:
		if e.B {
			return Val{K: VBool, T: "true"}, nil
		}
		return Val{K: VBool, T: "false"}, nil
	case ENil:
		return Val{K: VRef, T: "0"}, nil
	case EIdent:
		if v, ok := env.bound[e.Name]; ok {
			return v, nil
		}
		if v, ok := env.vars[e.Name]; ok {
			return v, nil
		}
		if g := tr.eng.db.Ghosts[e.Name]; g != nil {
			srt := ghostSort(g.Sort)
			t := tr.stateGet(env.cur, "G/"+g.Name, srt)
			k := VInt
			switch srt {
			case "Bool":
				k = VBool
			case "String":
				k = VStr
			}
			return Val{K: k, T: t}, nil
		}
		if d := tr.eng.db.Defines[e.Name]; d != nil && len(d.Params) == 0 {
			return env.expr(d.Body)
		}
		return Val{}, fmt.Errorf("unknown identifier %q", e.Name)
	case EOld:
		n := env.clone()
		n.cur = env.old
		return n.expr(e.A)
	case EUnary:
		a, err := env.expr(e.A)
		if err != nil {
			return Val{}, err
		}
		if e.Op == "!" {
			if a.K != VBool {
				return Val{}, fmt.Errorf("! applied to non-boolean %s", e.A)
			}
			return Val{K: VBool, T: sNot(a.T)}, nil
		}
		return Val{K: a.K, T: "(- " + a.T + ")"}, nil
	case EBinary:
		return env.binary(e)
	case ESel:
		return env.sel(e)
	case EIndex:
		return env.index(e)
	case ECall:
		return env.callExpr(e)
	case EQuant:
		n := env.clone()
		var decl []string
		for _, qv := range e.Vars {
			k, srt, err := sortOfName(qv.Sort)
			if err != nil {
				return Val{}, err
			}
			nm := sym(tr.fresh("!q_" + qv.Name))
			n.bound[qv.Name] = Val{K: k, T: nm}
			decl = append(decl, "("+nm+" "+srt+")")
		}
		body, err := n.boolExpr(e.A)
		if err != nil {
			return Val{}, err
		}
		return Val{K: VBool, T: "(" + e.Op + " (" + strings.Join(decl, " ") + ") " + body + ")"}, nil
	}
	return Val{}, fmt.Errorf("unsupported expression %s", e)
}

func (env *Env) binary(e *Expr) (Val, error) {
	a, err := env.expr(e.A)
	if err != nil {
		return Val{}, err
	}
	b, err := env.expr(e.Bx)
	if err != nil {
		return Val{}, err
	}
	// int literal against real
	if a.K == VReal && b.K == VInt {
		b = Val{K: VReal, T: "(to_real " + b.T + ")"}
	}
	if b.K == VReal && a.K == VInt {
		a = Val{K: VReal, T: "(to_real " + a.T + ")"}
	}
	needBool := func() error {
		if a.K != VBool || b.K != VBool {
			return fmt.Errorf("operator %s needs boolean operands in %s", e.Op, e)
		}
		return nil
	}
	switch e.Op {
	case "==>":
		if err := needBool(); err != nil {
			return Val{}, err
		}
		return Val{K: VBool, T: sImp(a.T, b.T)}, nil
	case "<==>":
		if err := needBool(); err != nil {
			return Val{}, err
		}
		return Val{K: VBool, T: sEq(a.T, b.T)}, nil
	case "&&":
		if err := needBool(); err != nil {
			return Val{}, err
		}
		return Val{K: VBool, T: sAnd(a.T, b.T)}, nil
	case "||":
		if err := needBool(); err != nil {
			return Val{}, err
		}
		return Val{K: VBool, T: sOr(a.T, b.T)}, nil
	case "==", "!=":
		var eq string
		if (a.K == VStruct || a.K == VSlice || a.K == VTuple) && a.K == b.K {
			eq = valEq(a, b)
		} else if a.sort() != b.sort() {
			return Val{}, fmt.Errorf("comparison of different sorts in %s (%s vs %s)", e, a.sort(), b.sort())
		} else {
			eq = sEq(a.T, b.T)
		}
		if e.Op == "!=" {
			eq = sNot(eq)
		}
		return Val{K: VBool, T: eq}, nil
	case "<", "<=", ">", ">=":
		if a.K == VStr {
			return Val{}, fmt.Errorf("string ordering not supported in %s", e)
		}
		return Val{K: VBool, T: "(" + e.Op + " " + a.T + " " + b.T + ")"}, nil
	case "+":
		if a.K == VStr {
			return Val{K: VStr, T: "(str.++ " + a.T + " " + b.T + ")"}, nil
		}
		return Val{K: a.K, T: "(+ " + a.T + " " + b.T + ")"}, nil
	case "-":
		return Val{K: a.K, T: "(- " + a.T + " " + b.T + ")"}, nil
	case "*":
		return Val{K: a.K, T: "(* " + a.T + " " + b.T + ")"}, nil
	case "/":
		if a.K == VReal {
			return Val{K: VReal, T: "(/ " + a.T + " " + b.T + ")"}, nil
		}
		return Val{K: VInt, T: "(div " + a.T + " " + b.T + ")"}, nil
	case "%":
		return Val{K: VInt, T: "(mod " + a.T + " " + b.T + ")"}, nil
	case "&":
		if c, ok := constUint(b.T); ok {
			return Val{K: VInt, T: maskAnd(a.T, c)}, nil
		}
		return Val{}, fmt.Errorf("& needs a constant right operand in %s", e)
	}
	return Val{}, fmt.Errorf("unsupported operator %s", e.Op)
}

func (env *Env) pkgMember(pkgName, member string) (Val, bool, error) {
	tr := env.f.tr
	var found []*ssa.Package
	for _, p := range tr.eng.prog.AllPackages() {
		if p.Pkg.Name() == pkgName {
			if _, ok := p.Members[member]; ok {
				found = append(found, p)
			}
		}
	}
	if len(found) == 0 {
		return Val{}, false, nil
	}
	if len(found) > 1 {
		// prefer in-module, then standard library (no dot in first path element)
		var best *ssa.Package
		for _, p := range found {
			if strings.HasPrefix(p.Pkg.Path(), tr.eng.modPath) {
				best = p
			}
		}
		if best == nil {
			for _, p := range found {
				if !strings.Contains(strings.Split(p.Pkg.Path(), "/")[0], ".") {
					best = p
				}
			}
		}
		if best == nil {
			return Val{}, false, fmt.Errorf("ambiguous package name %s for member %s", pkgName, member)
		}
		found = []*ssa.Package{best}
	}
	switch m := found[0].Members[member].(type) {
	case *ssa.Global:
		return tr.globalVal(m), true, nil
	case *ssa.NamedConst:
		return tr.constVal(m.Value), true, nil
	case *ssa.Function:
		return env.f.val(m), true, nil
	}
	return Val{}, false, fmt.Errorf("%s.%s is not a variable or constant", pkgName, member)
}

func (env *Env) sel(e *Expr) (Val, error) {
	tr := env.f.tr
	if e.A.K == EIdent {
		_, isBound := env.bound[e.A.Name]
		_, isVar := env.vars[e.A.Name]
		if !isBound && !isVar && tr.eng.db.Ghosts[e.A.Name] == nil {
			v, ok, err := env.pkgMember(e.A.Name, e.Name)
			if err != nil {
				return Val{}, err
			}
			if ok {
				return v, nil
			}
			return Val{}, fmt.Errorf("unknown identifier %q in %s", e.A.Name, e)
		}
	}
	base, err := env.expr(e.A)
	if err != nil {
		return Val{}, err
	}
	if base.Typ == nil {
		return Val{}, fmt.Errorf("cannot select %s: base has no Go type", e)
	}
	t := base.Typ
	if pt := pointee(t); pt != nil && base.K == VRef {
		s, ok := pt.Underlying().(*types.Struct)
		if !ok {
			return Val{}, fmt.Errorf("cannot select %s: not a struct pointer", e)
		}
		for i := 0; i < s.NumFields(); i++ {
			if s.Field(i).Name() == e.Name {
				return tr.loadField(env.cur, pt, s.Field(i), base.T), nil
			}
		}
		return Val{}, fmt.Errorf("no field %s in %s", e.Name, typeKey(pt))
	}
	if base.K == VStruct {
		s := t.Underlying().(*types.Struct)
		for i := 0; i < s.NumFields(); i++ {
			if s.Field(i).Name() == e.Name && i < len(base.Fs) {
				return base.Fs[i], nil
			}
		}
		return Val{}, fmt.Errorf("no field %s in %s", e.Name, typeKey(t))
	}
	return Val{}, fmt.Errorf("cannot select field %s of %s", e.Name, e.A)
}

func (env *Env) index(e *Expr) (Val, error) {
	tr := env.f.tr
	if e.A.K == EIdent {
		if g := tr.eng.db.Ghosts[e.A.Name]; g != nil && strings.HasPrefix(g.Sort, "map[") {
			if _, shadow := env.vars[e.A.Name]; !shadow {
				k, err := env.expr(e.Bx)
				if err != nil {
					return Val{}, err
				}
				srt := ghostSort(g.Sort)
				t := tr.stateGet(env.cur, "G/"+g.Name, srt)
				vk := VInt
				switch ghostElemSort(g.Sort) {
				case "Bool":
					vk = VBool
				case "String":
					vk = VStr
				}
				return Val{K: vk, T: sSel(t, k.T)}, nil
			}
		}
	}
	base, err := env.expr(e.A)
	if err != nil {
		return Val{}, err
	}
	idx, err := env.expr(e.Bx)
	if err != nil {
		return Val{}, err
	}
	switch base.K {
	case VSlice:
		et := base.Typ.Underlying().(*types.Slice).Elem()
		return tr.load(env.cur, et, tr.elemRef(base.T, idx.T)), nil
	case VMap:
		ks, vs, ok := mapSorts(base.Typ)
		if !ok {
			return Val{}, fmt.Errorf("map type of %s not modelled", e.A)
		}
		vn, hn := mapHeapNames(base.Typ)
		hv := tr.stateGet(env.cur, vn, arrSort("(Array "+ks+" "+vs+")"))
		hh := tr.stateGet(env.cur, hn, arrSort("(Array "+ks+" Bool)"))
		et := base.Typ.Underlying().(*types.Map).Elem()
		has := sAnd("(not (= "+base.T+" 0))", sSel(sSel(hh, base.T), idx.T))
		return Val{K: kindOf(et), T: sIte(has, sSel(sSel(hv, base.T), idx.T), tr.zeroVal(et).T), Typ: et}, nil
	}
	return Val{}, fmt.Errorf("cannot index %s", e.A)
}

func (env *Env) callExpr(e *Expr) (Val, error) {
	tr := env.f.tr
	if e.A != nil {
		return Val{}, fmt.Errorf("qualified function call %s not supported in contracts", e)
	}
	var args []Val
	evalArgs := func() error {
		for _, a := range e.Args {
			v, err := env.expr(a)
			if err != nil {
				return err
			}
			args = append(args, v)
		}
		return nil
	}
	need := func(n int) error {
		if len(e.Args) != n {
			return fmt.Errorf("%s takes %d arguments", e.Name, n)
		}
		return evalArgs()
	}
	switch e.Name {
	case "len":
		if err := need(1); err != nil {
			return Val{}, err
		}
		switch args[0].K {
		case VSlice:
			return Val{K: VInt, T: args[0].Len}, nil
		case VStr:
			return Val{K: VInt, T: "(str.len " + args[0].T + ")"}, nil
		}
		return Val{}, fmt.Errorf("len of %s", e.Args[0])
	case "hasPrefix":
		if err := need(2); err != nil {
			return Val{}, err
		}
		return Val{K: VBool, T: "(str.prefixof " + args[1].T + " " + args[0].T + ")"}, nil
	case "hasSuffix":
		if err := need(2); err != nil {
			return Val{}, err
		}
		return Val{K: VBool, T: "(str.suffixof " + args[1].T + " " + args[0].T + ")"}, nil
	case "contains":
		if err := need(2); err != nil {
			return Val{}, err
		}
		return Val{K: VBool, T: "(str.contains " + args[0].T + " " + args[1].T + ")"}, nil
	case "trimPrefix":
		if err := need(2); err != nil {
			return Val{}, err
		}
		x, p := args[0].T, args[1].T
		return Val{K: VStr, T: "(ite (str.prefixof " + p + " " + x + ") (str.substr " + x + " (str.len " + p + ") (- (str.len " + x + ") (str.len " + p + "))) " + x + ")"}, nil
	case "trimSuffix":
		if err := need(2); err != nil {
			return Val{}, err
		}
		x, p := args[0].T, args[1].T
		return Val{K: VStr, T: "(ite (str.suffixof " + p + " " + x + ") (str.substr " + x + " 0 (- (str.len " + x + ") (str.len " + p + "))) " + x + ")"}, nil
	case "substr":
		if err := need(3); err != nil {
			return Val{}, err
		}
		return Val{K: VStr, T: "(str.substr " + args[0].T + " " + args[1].T + " " + args[2].T + ")"}, nil
	case "ite":
		if err := need(3); err != nil {
			return Val{}, err
		}
		if args[0].K != VBool {
			return Val{}, fmt.Errorf("ite condition not boolean")
		}
		return Val{K: args[1].K, T: sIte(args[0].T, args[1].T, args[2].T), Typ: args[1].Typ}, nil
	case "deref":
		if err := need(1); err != nil {
			return Val{}, err
		}
		pt := pointee(args[0].Typ)
		if pt == nil {
			return Val{}, fmt.Errorf("deref of non-pointer %s", e.Args[0])
		}
		return tr.load(env.cur, pt, args[0].T), nil
	case "has":
		if err := need(2); err != nil {
			return Val{}, err
		}
		ks, _, ok := mapSorts(args[0].Typ)
		if !ok {
			return Val{}, fmt.Errorf("has: map type not modelled")
		}
		_, hn := mapHeapNames(args[0].Typ)
		hh := tr.stateGet(env.cur, hn, arrSort("(Array "+ks+" Bool)"))
		return Val{K: VBool, T: sAnd("(not (= "+args[0].T+" 0))", sSel(sSel(hh, args[0].T), args[1].T))}, nil
	case "real":
		if err := need(1); err != nil {
			return Val{}, err
		}
		return Val{K: VReal, T: "(to_real " + args[0].T + ")"}, nil
	case "floor":
		if err := need(1); err != nil {
			return Val{}, err
		}
		return Val{K: VInt, T: "(to_int " + args[0].T + ")"}, nil
	case "ceildiv":
		if err := need(2); err != nil {
			return Val{}, err
		}
		return Val{K: VInt, T: "(div (+ " + args[0].T + " (- " + args[1].T + " 1)) " + args[1].T + ")"}, nil
	case "typeIs":
		// typeIs(v, "full/type.Name")
		if len(e.Args) != 2 || e.Args[1].K != EStr {
			return Val{}, fmt.Errorf("typeIs(v, \"type\")")
		}
		v, err := env.expr(e.Args[0])
		if err != nil {
			return Val{}, err
		}
		dt := tr.declareFun("dyntype", []string{"Int"}, "Int")
		return Val{K: VBool, T: sAnd("(not (= "+v.T+" 0))", sEq("("+dt+" "+v.T+")", tr.eng.typeIDByKey(e.Args[1].Str)))}, nil
	case "addr":
		// addr(p.f): address of an embedded struct field
		if len(e.Args) != 1 || e.Args[0].K != ESel {
			return Val{}, fmt.Errorf("addr(p.f)")
		}
		base, err := env.expr(e.Args[0].A)
		if err != nil {
			return Val{}, err
		}
		pt := pointee(base.Typ)
		if pt == nil {
			return Val{}, fmt.Errorf("addr: base of %s is not a pointer", e.Args[0])
		}
		s, ok := pt.Underlying().(*types.Struct)
		if !ok {
			return Val{}, fmt.Errorf("addr: base of %s does not point to a struct", e.Args[0])
		}
		for i := 0; i < s.NumFields(); i++ {
			if s.Field(i).Name() == e.Args[0].Name {
				return Val{K: VRef, T: tr.subRef(pt, e.Args[0].Name, base.T), Typ: types.NewPointer(s.Field(i).Type())}, nil
			}
		}
		return Val{}, fmt.Errorf("addr: no field %s", e.Args[0].Name)
	case "conforms":
		// conforms(f, SpecName)
		if len(e.Args) != 2 || e.Args[1].K != EIdent {
			return Val{}, fmt.Errorf("conforms(f, SpecName)")
		}
		fv, err := env.expr(e.Args[0])
		if err != nil {
			return Val{}, err
		}
		p := tr.declareFun("conf/"+e.Args[1].Name, []string{"Int"}, "Bool")
		return Val{K: VBool, T: "(" + p + " " + fv.T + ")"}, nil
	case "id":
		if err := need(1); err != nil {
			return Val{}, err
		}
		if args[0].ID == "" {
			return Val{}, fmt.Errorf("id(%s): value has no interface identity", e.Args[0])
		}
		return Val{K: VIface, T: args[0].ID}, nil
	case "cast":
		// cast(x, "pkg/path.Type"): view a reference as a pointer to the named struct type
		if len(e.Args) != 2 || e.Args[1].K != EStr {
			return Val{}, fmt.Errorf("cast(x, \"pkg/path.Type\")")
		}
		x, err := env.expr(e.Args[0])
		if err != nil {
			return Val{}, err
		}
		t := tr.eng.namedType(e.Args[1].Str)
		if t == nil {
			return Val{}, fmt.Errorf("cast: unknown type %s", e.Args[1].Str)
		}
		return Val{K: VRef, T: x.T, Typ: types.NewPointer(t)}, nil
	case "unboxStr":
		// unboxStr(v): the string boxed in interface value v
		if err := need(1); err != nil {
			return Val{}, err
		}
		ufn := tr.declareFun("unbox/string", []string{"Int"}, "String")
		return Val{K: VStr, T: "(" + ufn + " " + args[0].T + ")"}, nil
	case "ifaceRef":
		// ifaceRef(v): the pointer boxed in interface value v (axiomatised at MakeInterface sites)
		if err := need(1); err != nil {
			return Val{}, err
		}
		fn := tr.declareFun("ifaceref", []string{"Int"}, "Int")
		return Val{K: VInt, T: "(" + fn + " " + args[0].T + ")"}, nil
	case "ref":
		// ref(x): the address/identity of a pointer-like value as Int
		if err := need(1); err != nil {
			return Val{}, err
		}
		return Val{K: VInt, T: args[0].T}, nil
	}
	if err := evalArgs(); err != nil {
		return Val{}, err
	}
	// ghost map application
	if g := tr.eng.db.Ghosts[e.Name]; g != nil && len(args) == 1 {
		srt := ghostSort(g.Sort)
		t := tr.stateGet(env.cur, "G/"+g.Name, srt)
		vk := VInt
		switch ghostElemSort(g.Sort) {
		case "Bool":
			vk = VBool
		case "String":
			vk = VStr
		}
		return Val{K: vk, T: sSel(t, args[0].T)}, nil
	}
	if d := tr.eng.db.Defines[e.Name]; d != nil {
		if len(d.Params) != len(args) {
			return Val{}, fmt.Errorf("%s takes %d arguments", e.Name, len(d.Params))
		}
		n := env.clone()
		for i, p := range d.Params {
			n.bound[p.Name] = args[i]
		}
		return n.expr(d.Body)
	}
	if fd := tr.eng.db.Funcs[e.Name]; fd != nil {
		if len(fd.Params) != len(args) {
			return Val{}, fmt.Errorf("%s takes %d arguments", e.Name, len(fd.Params))
		}
		var ss []string
		var ts []string
		for i, p := range fd.Params {
			_, s, err := sortOfName(p)
			if err != nil {
				return Val{}, err
			}
			ss = append(ss, s)
			if args[i].sort() != s {
				return Val{}, fmt.Errorf("argument %d of %s has sort %s, want %s", i+1, e.Name, args[i].sort(), s)
			}
			ts = append(ts, args[i].T)
		}
		rk, rs, err := sortOfName(fd.Result)
		if err != nil {
			return Val{}, err
		}
		fn := tr.declareFun("uf/"+fd.Name, ss, rs)
		tr.note("uninterpreted function " + fd.Name)
		if len(ts) == 0 {
			return Val{K: rk, T: fn}, nil
		}
		return Val{K: rk, T: "(" + fn + " " + strings.Join(ts, " ") + ")"}, nil
	}
	return Val{}, fmt.Errorf("unknown function %q", e.Name)
}

func (e *Engine) typeIDByKey(k string) string {
	if id, ok := e.typeIDs[k]; ok {
		return fmt.Sprint(id)
	}
	id := len(e.typeIDs) + 1
	e.typeIDs[k] = id
	return fmt.Sprint(id)
}

// envAt builds the environment for annotations evaluated at block b (loop invariants, call-site asserts).
func (f *Frame) envAt(b *ssa.BasicBlock) *Env {
	return f.envAtWith(b, f.cur.St)
}

func (f *Frame) envAtWith(b *ssa.BasicBlock, st *State) *Env {
	env := &Env{f: f, vars: map[string]Val{}, cur: st, old: f.oldSt}
	if env.old == nil {
		env.old = f.tr.init
	}
	for n, v := range f.params {
		env.vars[n] = v
		env.vars[n+"0"] = v
	}
	for i, fv := range f.fn.FreeVars {
		if v, ok := f.vals[fv]; ok {
			bindFreeVar(f.tr, env, fv, v)
		}
		_ = i
	}
	// source-level names: header phis (merged value of a variable at a join) and, with ssa.GlobalDebug, DebugRefs of
	// register values; walking the dominator chain from the entry down to b, the latest binding wins
	f.bindDebugNames(env, b)
	// variables that live in memory (address taken) are read from the current state and win over debug values
	for _, ai := range f.allocL {
		if ai.a == nil || ai.a.Comment == "" || ai.ref == "" {
			continue
		}
		if !ai.a.Block().Dominates(b) {
			continue
		}
		pt := pointee(ai.a.Type())
		if _, isArr := pt.Underlying().(*types.Array); isArr {
			continue
		}
		env.vars[ai.a.Comment] = f.tr.load(st, pt, ai.ref)
		env.vars["addr_"+ai.a.Comment] = Val{K: VRef, T: ai.ref, Typ: ai.a.Type()}
	}
	// a variable assigned exactly once that is not in scope at b (sibling block of the same loop iteration): its value
	// on the paths through the assignment, arbitrary elsewhere
	for n, x := range singleDefsOf(f.fn) {
		if _, taken := env.vars[n]; taken {
			continue
		}
		if v, ok := f.vals[x]; ok {
			env.vars[n] = v
		}
	}
	return env
}

var singleDefCache = map[*ssa.Function]map[string]ssa.Value{}

func singleDefsOf(fn *ssa.Function) map[string]ssa.Value {
	if m, ok := singleDefCache[fn]; ok {
		return m
	}
	m := localSingleDefs(fn)
	singleDefCache[fn] = m
	return m
}

var _ = constant.MakeBool

// conjuncts flattens top-level && (expanding zero-argument and applied defines) so that each conjunct becomes its own
// site and a failure names the part that failed.
func (env *Env) conjuncts(e *Expr) []*Expr {
	if e.K == EBinary && e.Op == "&&" {
		return append(env.conjuncts(e.A), env.conjuncts(e.Bx)...)
	}
	if e.K == ECall && e.A == nil {
		if d := env.f.tr.eng.db.Defines[e.Name]; d != nil && len(d.Params) == len(e.Args) && d.Body.K == EBinary && d.Body.Op == "&&" {
			var out []*Expr
			for _, cj := range env.conjuncts(d.Body) {
				out = append(out, substExpr(cj, d.Params, e.Args))
			}
			return out
		}
	}
	return []*Expr{e}
}

func substExpr(e *Expr, ps []QVar, args []*Expr) *Expr {
	if e == nil {
		return nil
	}
	if e.K == EIdent {
		for i, p := range ps {
			if p.Name == e.Name {
				return args[i]
			}
		}
		return e
	}
	n := *e
	n.A = substExpr(e.A, ps, args)
	n.Bx = substExpr(e.Bx, ps, args)
	n.C = substExpr(e.C, ps, args)
	if e.Args != nil {
		n.Args = make([]*Expr, len(e.Args))
		for i, a := range e.Args {
			n.Args[i] = substExpr(a, ps, args)
		}
	}
	return &n
}

func (f *Frame) bindDebugNames(env *Env, b *ssa.BasicBlock) {
	var chain []*ssa.BasicBlock
	for x := b; x != nil; x = x.Idom() {
		chain = append(chain, x)
	}
	for i := len(chain) - 1; i >= 0; i-- {
		blk := chain[i]
		for _, in := range blk.Instrs {
			if blk == b && f.curBlock == b && in == f.curIn {
				break
			}
			if phi, ok := in.(*ssa.Phi); ok {
				if phi.Comment != "" {
					if v, ok := f.vals[phi]; ok {
						env.vars[phi.Comment] = v
					}
				}
				continue
			}
			dr, ok := in.(*ssa.DebugRef)
			if !ok || dr.IsAddr {
				continue
			}
			obj := dr.Object()
			if obj == nil {
				continue
			}
			if _, isVar := obj.(*types.Var); !isVar {
				continue
			}
			if v, ok := f.vals[dr.X]; ok {
				env.vars[obj.Name()] = v
			} else if c, ok := dr.X.(*ssa.Const); ok {
				env.vars[obj.Name()] = f.tr.constVal(c)
			}
		}
	}
}
