package main

import (
	"encoding/json"
	"flag"
	"fmt"
	"golang.org/x/tools/go/ssa"
	"os"
	"path/filepath"
	"sort"
	"strconv"
	"strings"
	"sync"
	"time"
)

// verifDir: root of the framework (specs, lock, known findings, bounded tests, replay templates). STFS_VERIF points
// evaluation batches at a frozen snapshot so that editing /verif does not disturb them.
var verifDir = func() string {
	if d := os.Getenv("STFS_VERIF"); d != "" {
		return d
	}
	return "/verif"
}()

type SiteResult struct {
	Obl    *Obl
	Site   *Site
	Res    SolveResult
	Status string
}

type OblResult struct {
	Obl        *Obl
	Discharged bool
	Sites      []*SiteResult
	Secs       float64
	Solver     string
}

type KnownFinding struct {
	Property   string `json:"property"`
	Obligation string `json:"obligation"`
	Site       string `json:"site"` // "*" = every site of the obligation is not accepted; sites must be named
	What       string `json:"what"`
}

type FixedEntry struct {
	Property string `json:"property"`
	Commit   string `json:"commit"`
	What     string `json:"what"`
}

type KnownFile struct {
	Findings []KnownFinding `json:"findings"`
	Fixed    []string       `json:"fixed"`
}

type LockFile struct {
	Obligations map[string][]string `json:"obligations"` // property -> names
}

func loadJSON(path string, v interface{}) error {
	b, err := os.ReadFile(path)
	if err != nil {
		return err
	}
	return json.Unmarshal(b, v)
}

func main() {
	if len(os.Args) < 2 {
		fmt.Fprintln(os.Stderr, "usage: stfsvc check <Cnn> [--tier quick|thorough] | vc <func-substring> | dump <func-substring> | lock")
		os.Exit(2)
	}
	defer cleanupScratch()
	switch os.Args[1] {
	case "check":
		os.Exit(cmdCheck(os.Args[2:]))
	case "vc":
		os.Exit(cmdVC(os.Args[2:]))
	case "dump":
		os.Exit(cmdDump(os.Args[2:]))
	case "lock":
		os.Exit(cmdLock(os.Args[2:]))
	case "loops":
		os.Exit(cmdLoops(os.Args[2:]))
	default:
		fmt.Fprintln(os.Stderr, "unknown command", os.Args[1])
		os.Exit(2)
	}
}

func repoDir() string {
	if d := os.Getenv("STFS_REPO"); d != "" {
		return d
	}
	return "/repo"
}

func cmdDump(args []string) int {
	e, err := LoadEngine(repoDir(), filepath.Join(verifDir, "specs"))
	if err != nil {
		fmt.Fprintln(os.Stderr, err)
		return 2
	}
	var keys []string
	for k := range e.funcs {
		keys = append(keys, k)
	}
	sort.Strings(keys)
	for _, k := range keys {
		if len(args) == 0 {
			fmt.Println(k)
			continue
		}
		if strings.Contains(k, args[0]) {
			e.funcs[k].WriteTo(os.Stdout)
		}
	}
	return 0
}

// solveAll discharges the obligations of the given translators for property prop ("" = all).
func solveAll(trs []*Tr, prop string, timeoutS int, confirm bool) ([]*OblResult, []string) {
	var results []*OblResult
	var problems []string
	var jobs []job
	var mu sync.Mutex
	for _, tr := range trs {
		for _, p := range tr.errs {
			problems = append(problems, tr.topShort+": "+p)
		}
		for _, name := range tr.oblOrder {
			o := tr.obls[name]
			if prop != "" && o.Prop != prop {
				continue
			}
			or := &OblResult{Obl: o}
			results = append(results, or)
			if o.Kind == "cover" {
				tr, o := tr, o
				for _, s := range o.Sites {
					s := s
					q := tr.script(s.Goal, false)
					jobs = append(jobs, job{query: q, timeout: timeoutS, order: solverOrder(q), done: func(r SolveResult) {
						mu.Lock()
						defer mu.Unlock()
						or.Secs += r.Secs
						or.Solver = r.Solver
						st := "unsat" // reporting convention: "unsat" = fine
						if r.Status == "unsat" {
							st = "unreachable"
						} else if r.Status != "sat" {
							st = "unsat" // unknown/timeout: reachability is not refuted; do not alarm
						}
						or.Sites = append(or.Sites, &SiteResult{Obl: o, Site: s, Res: r, Status: st})
						all := true
						for _, sr := range or.Sites {
							if sr.Status != "unsat" {
								all = false
							}
						}
						or.Discharged = all && len(or.Sites) == len(o.Sites)
					}})
				}
				continue
			}
			var goals []string
			for _, s := range o.Sites {
				if s.Goal != "false" {
					goals = append(goals, s.Goal)
				}
			}
			if len(goals) == 0 {
				or.Discharged = true
				or.Solver = "trivial"
				continue
			}
			tr, o := tr, o
			q := tr.script(sOr(goals...), false)
			jobs = append(jobs, job{query: q, timeout: timeoutS, order: solverOrder(q), done: func(r SolveResult) {
				mu.Lock()
				or.Secs += r.Secs
				or.Solver = r.Solver
				mu.Unlock()
				if r.Status == "unsat" {
					if confirm {
						// second solver must not disagree
						for _, s2 := range solverOrder(q) {
							if s2 == r.Solver {
								continue
							}
							r2 := runSolver(s2, q, timeoutS)
							if r2.Status == "sat" {
								mu.Lock()
								problems = append(problems, fmt.Sprintf("solver disagreement on %s: %s unsat, %s sat", o.Name(), r.Solver, s2))
								mu.Unlock()
							}
							if r2.Status == "unsat" {
								mu.Lock()
								or.Solver = r.Solver + "+" + s2
								mu.Unlock()
							}
							break
						}
					}
					mu.Lock()
					or.Discharged = true
					mu.Unlock()
					return
				}
				// split per site
				var wg sync.WaitGroup
				srs := make([]*SiteResult, len(o.Sites))
				sem := make(chan struct{}, 8)
				for i, s := range o.Sites {
					srs[i] = &SiteResult{Obl: o, Site: s}
					if s.Goal == "false" {
						srs[i].Status = "unsat"
						continue
					}
					wg.Add(1)
					go func(i int, s *Site) {
						defer wg.Done()
						sem <- struct{}{}
						defer func() { <-sem }()
						qs := tr.script(s.Goal, true)
						rr := solve(qs, timeoutS, solverOrder(qs))
						rr.Query = qs
						srs[i].Res = rr
						srs[i].Status = rr.Status
					}(i, s)
				}
				wg.Wait()
				mu.Lock()
				or.Sites = srs
				all := true
				for _, sr := range srs {
					or.Secs += sr.Res.Secs
					if sr.Status != "unsat" {
						all = false
					}
				}
				or.Discharged = all
				mu.Unlock()
			}})
		}
	}
	runJobs(jobs, 16)
	return results, problems
}

func cmdVC(args []string) int {
	fs := flag.NewFlagSet("vc", flag.ExitOnError)
	smtDir := fs.String("smt", "", "write queries to this directory")
	prop := fs.String("prop", "", "only this property")
	timeout := fs.Int("timeout", 10, "per-query timeout (s)")
	verbose := fs.Bool("v", false, "verbose")
	fs.Parse(args)
	e, err := LoadEngine(repoDir(), filepath.Join(verifDir, "specs"))
	if err != nil {
		fmt.Fprintln(os.Stderr, err)
		return 2
	}
	pat := ""
	if fs.NArg() > 0 {
		pat = fs.Arg(0)
	}
	fns, cs, missing := e.functionsFor("")
	for _, m := range missing {
		fmt.Println("BROKEN-CHECK contract target missing:", m)
	}
	var trs []*Tr
	for i, fn := range fns {
		if pat != "" && !strings.Contains(fn.String(), pat) {
			continue
		}
		tr := e.Verify(fn, cs[i], *prop)
		trs = append(trs, tr)
		if *smtDir != "" {
			os.MkdirAll(*smtDir, 0o755)
			for _, n := range tr.oblOrder {
				o := tr.obls[n]
				for j, s := range o.Sites {
					os.WriteFile(filepath.Join(*smtDir, fmt.Sprintf("%s.%d.smt2", strings.ReplaceAll(n, "/", "_"), j)), []byte(tr.script(s.Goal, true)), 0o644)
				}
			}
		}
	}
	if pat == "" || strings.Contains("lemma", pat) {
		if lt := e.VerifyLemmas(*prop); lt != nil {
			trs = append(trs, lt)
		}
	}
	results, problems := solveAll(trs, *prop, *timeout, false)
	for _, p := range problems {
		fmt.Println("PROBLEM:", p)
	}
	nd := 0
	for _, r := range results {
		st := "FAILED"
		if r.Discharged {
			st = "ok"
			nd++
		}
		fmt.Printf("%-7s %-70s %d sites %.2fs %s\n", st, r.Obl.Name(), len(r.Obl.Sites), r.Secs, r.Solver)
		if !r.Discharged || *verbose {
			for _, sr := range r.Sites {
				if sr.Status != "unsat" {
					fmt.Printf("        %-8s %s  %s\n", sr.Status, sr.Site.Sig, sr.Site.What)
				}
			}
		}
	}
	for _, tr := range trs {
		if tr.top == nil {
			continue
		}
		if st := coverStatus(tr, *timeout); st != "sat" {
			fmt.Printf("VACUOUS? %s: no return shown reachable (%s)\n", tr.topShort, st)
		}
		if *verbose {
			var us []string
			for u := range tr.used {
				us = append(us, u)
			}
			sort.Strings(us)
			for _, u := range us {
				fmt.Println("   note:", u)
			}
		}
	}
	fmt.Printf("%d/%d obligations discharged\n", nd, len(results))
	return 0
}

type checkRun struct {
	bounded  []*BoundedResult
	prop     string
	tier     string
	results  []*OblResult
	problems []string
	trs      []*Tr
	missing  []string
	engine   *Engine
}

func runCheck(prop, tier string) (*checkRun, error) {
	// the bounded stand-ins (real code on real SQLite) run beside the deductive part
	boundedCh := make(chan []*BoundedResult, 1)
	go func() { boundedCh <- runBounded(prop, tier) }()
	t0 := time.Now()
	phase := func(what string) {
		if os.Getenv("VERIF_TIMING") != "" {
			fmt.Fprintf(os.Stderr, "timing: %s at %.1fs\n", what, time.Since(t0).Seconds())
		}
	}
	e, err := LoadEngine(repoDir(), filepath.Join(verifDir, "specs"))
	if err != nil {
		return nil, err
	}
	phase("loaded")
	fns, cs, missing := e.functionsFor(prop)
	var trs []*Tr
	for i, fn := range fns {
		trs = append(trs, e.Verify(fn, cs[i], prop))
	}
	var immProblems []string
	for _, b := range e.checkImmutables() {
		immProblems = append(immProblems, "immutable-field assumption violated: "+b)
	}
	if lt := e.VerifyLemmas(prop); lt != nil {
		trs = append(trs, lt)
	}
	timeout := 10
	if tier == "thorough" {
		timeout = 60
	}
	phase("vcs generated")
	results, problems := solveAll(trs, prop, timeout, tier == "thorough")
	phase("solved")
	problems = append(problems, immProblems...)
	// vacuity covers
	{
		var wg sync.WaitGroup
		var mu sync.Mutex
		sem := make(chan struct{}, 8)
		for _, tr := range trs {
			if tr.top == nil {
				continue
			}
			wg.Add(1)
			go func(tr *Tr) {
				defer wg.Done()
				sem <- struct{}{}
				defer func() { <-sem }()
				if st := coverStatus(tr, timeout); st == "unsat" {
					mu.Lock()
					problems = append(problems, fmt.Sprintf("vacuous contract: no return of %s is reachable under its preconditions", tr.topShort))
					mu.Unlock()
				}
			}(tr)
		}
		wg.Wait()
		sort.Strings(problems)
	}
	phase("covers done")
	b := <-boundedCh
	phase("bounded done")
	return &checkRun{prop: prop, tier: tier, results: results, problems: problems, trs: trs, missing: missing, engine: e, bounded: b}, nil
}

func cmdLock(args []string) int {
	lock := LockFile{Obligations: map[string][]string{}}
	props := args
	if len(props) == 0 {
		fmt.Fprintln(os.Stderr, "usage: stfsvc lock C10 C15 ...")
		return 2
	}
	old := LockFile{Obligations: map[string][]string{}}
	loadJSON(filepath.Join(verifDir, "obligations.lock"), &old)
	for k, v := range old.Obligations {
		lock.Obligations[k] = v
	}
	for _, p := range props {
		cr, err := runCheck(p, "quick")
		if err != nil {
			fmt.Fprintln(os.Stderr, err)
			return 2
		}
		var names []string
		for _, r := range cr.results {
			names = append(names, r.Obl.Name())
		}
		sort.Strings(names)
		lock.Obligations[p] = names
		fmt.Printf("%s: %d obligations locked\n", p, len(names))
	}
	b, _ := json.MarshalIndent(lock, "", " ")
	os.WriteFile(filepath.Join(verifDir, "obligations.lock"), append(b, '\n'), 0o644)
	return 0
}

func cmdCheck(args []string) int {
	if len(args) < 1 {
		fmt.Fprintln(os.Stderr, "usage: stfsvc check <Cnn> [--tier quick|thorough]")
		return 2
	}
	prop := args[0]
	fs := flag.NewFlagSet("check", flag.ExitOnError)
	tier := fs.String("tier", "quick", "quick|thorough")
	kfjson := fs.Bool("kf-json", false, "dev: print unlisted failing sites as known-finding JSON entries")
	fs.Parse(args[1:])
	printKF = *kfjson
	if t := os.Getenv("VERIF_TIER"); t != "" && *tier == "quick" && (t == "quick" || t == "thorough") {
		*tier = t
	}
	seed := 0
	if s := os.Getenv("VERIF_SEED"); s != "" {
		seed, _ = strconv.Atoi(s)
	}
	start := time.Now()
	cr, err := runCheck(prop, *tier)
	if err != nil {
		fmt.Println("BROKEN-CHECK", err)
		return 2
	}
	return report(cr, seed, start)
}

var printKF bool

func report(cr *checkRun, seed int, start time.Time) int {
	prop := cr.prop
	exit := 0
	var known KnownFile
	loadJSON(filepath.Join(verifDir, "known_findings.json"), &known)
	var lock LockFile
	loadJSON(filepath.Join(verifDir, "obligations.lock"), &lock)
	kf := map[string]KnownFinding{}
	for _, k := range known.Findings {
		if k.Property == prop {
			kf[k.Obligation+"\x00"+k.Site] = k
		}
	}
	for _, m := range cr.missing {
		fmt.Printf("BROKEN-CHECK contract target missing in /repo: %s\n", m)
		exit = 2
	}
	for _, p := range cr.problems {
		fmt.Printf("BROKEN-CHECK %s\n", p)
		exit = 2
	}
	got := map[string]*OblResult{}
	for _, r := range cr.results {
		got[r.Obl.Name()] = r
	}
	for _, n := range lock.Obligations[prop] {
		if got[n] == nil {
			fmt.Printf("BROKEN-CHECK obligation %s is locked but was not generated (contract target or call site missing)\n", n)
			exit = 2
		}
	}
	if len(cr.results) == 0 && len(cr.bounded) == 0 {
		fmt.Printf("BROKEN-CHECK no obligations generated for %s\n", prop)
		exit = 2
	}
	os.MkdirAll(filepath.Join(outDir(), "out", "replay"), 0o755)
	claimed, discharged := 0, 0
	violations := 0
	var kfObls []map[string]interface{}
	var samples []map[string]interface{}
	var perObl []map[string]interface{}
	solverSecs := 0.0
	bySolver := map[string]int{}
	seenKF := map[string]bool{}
	for _, r := range cr.results {
		solverSecs += r.Secs
		name := r.Obl.Name()
		hasKF := false
		var failing []*SiteResult
		for _, sr := range r.Sites {
			if sr.Status != "unsat" {
				failing = append(failing, sr)
			}
		}
		var newFail []*SiteResult
		var kfSites []string
		for _, sr := range failing {
			if k, ok := kf[name+"\x00"+sr.Site.Sig]; ok {
				hasKF = true
				seenKF[name+"\x00"+sr.Site.Sig] = true
				kfSites = append(kfSites, sr.Site.Sig)
				fmt.Printf("KNOWN-FINDING: property=%s %s @ %s: %s\n", prop, name, sr.Site.Sig, k.What)
			} else {
				newFail = append(newFail, sr)
			}
		}
		// does the known-findings file list this obligation at all (sites that pass now)?
		for key := range kf {
			if strings.HasPrefix(key, name+"\x00") {
				hasKF = true
			}
		}
		if hasKF {
			kfObls = append(kfObls, map[string]interface{}{"obligation": name, "failing_sites": kfSites})
		} else {
			claimed++
			if r.Discharged {
				discharged++
				bySolver[r.Solver]++
			}
		}
		for _, sr := range newFail {
			if printKF {
				b, _ := json.Marshal(KnownFinding{Property: prop, Obligation: name, Site: sr.Site.Sig, What: "TODO"})
				fmt.Println("KFJSON " + string(b) + ",")
			}
			violations++
			exit1 := writeReplay(cr, r, sr)
			fmt.Println(exit1)
			if exit == 0 {
				exit = 1
			}
		}
		if len(samples) < 6 && r.Discharged {
			samples = append(samples, map[string]interface{}{"obligation": name, "kind": r.Obl.Kind, "clause": r.Obl.Src, "sites": len(r.Obl.Sites), "solver": r.Solver, "secs": round3(r.Secs)})
		}
		perObl = append(perObl, map[string]interface{}{"name": name, "kind": r.Obl.Kind, "sites": len(r.Obl.Sites), "discharged": r.Discharged, "solver": r.Solver, "secs": round3(r.Secs)})
	}
	var boundedEv []map[string]interface{}
	for _, br := range cr.bounded {
		if br.Err != "" {
			fmt.Printf("BROKEN-CHECK bounded stand-in %s: %s\n", br.Spec.Name, br.Err)
			exit = 2
			continue
		}
		boundedEv = append(boundedEv, map[string]interface{}{"name": br.Spec.Name, "label": "bounded (not proved)", "cases": br.Cases, "failing": br.Failing, "bound": br.Spec.Bound, "secs": round3(br.Secs), "exhaustive_within_bound": true})
		if br.Failing > 0 {
			file := filepath.Join(outDir(), "out", "replay", sanitizeFile("bounded__"+br.Spec.Name)+".json")
			rep := map[string]interface{}{"property": prop, "bounded_check": br.Spec.Name, "bound": br.Spec.Bound, "failing_cases": br.Failing, "first_failing_inputs": br.Violations,
				"replay_cmd": "/verif/tools/replay.sh /repo " + br.Spec.Pkg + " '" + br.Spec.Run + "' " + filepath.Join(verifDir, "bounded", br.Spec.Files[0])}
			b, _ := json.MarshalIndent(rep, "", " ")
			os.WriteFile(file, append(b, '\n'), 0o644)
			key := br.Spec.Name + "\x00*"
			if k, ok := kf[key]; ok {
				seenKF[key] = true
				fmt.Printf("KNOWN-FINDING: property=%s %s: %s\n", prop, br.Spec.Name, k.What)
			} else {
				violations++
				fmt.Printf("VIOLATION property=%s replay=%s bounded=%s failing=%d of %d cases (real function executed on the failing inputs)\n", prop, file, br.Spec.Name, br.Failing, br.Cases)
				if exit == 0 {
					exit = 1
				}
			}
		}
	}
	for key, k := range kf {
		if !seenKF[key] {
			fmt.Printf("INFO: known finding no longer fails: %s @ %s\n", k.Obligation, k.Site)
		}
	}
	// evidence
	assume := map[string]bool{}
	var fnames []string
	for _, tr := range cr.trs {
		if tr.top == nil {
			fnames = append(fnames, "(lemmas over the contract vocabulary)")
		} else {
			fnames = append(fnames, tr.top.String())
		}
		for u := range tr.used {
			assume[u] = true
		}
	}
	var assumptions []string
	for a := range assume {
		assumptions = append(assumptions, a)
	}
	sort.Strings(assumptions)
	assumptions = append([]string{
		"integers are mathematical (no overflow) unless a function is marked overflow",
		"pointer receivers are non-nil; parameters pre-exist (cannot alias allocations made by the function)",
		"external callees without a spec do not touch ghost state; with scalar-only arguments they do not touch the heap",
		"callee contracts are assumed at call sites (modular); each is verified against its own body when it is an in-module function, assumed when it is an extern/iface/spec",
	}, assumptions...)
	trusted := []string{"go/ssa (x/tools v0.29.0) as the semantics of the Go source", "stfsvc VC generator", "z3 4.8.12 / z3 5.1.0 / cvc5 1.0.x", "assumed specs in /verif/specs/*.spec"}
	ev := map[string]interface{}{
		"property_id": prop,
		"tier":        cr.tier,
		"seed":        seed,
		"level":       "proof",
		"coverage": map[string]interface{}{
			"obligations":               claimed,
			"discharged":                discharged,
			"checker_cmd":               "/verif/bin/stfsvc check " + prop + " --tier " + cr.tier,
			"trusted_base":              trusted,
			"samples":                   samples,
			"functions_under_contract":  fnames,
			"per_obligation":            perObl,
			"known_finding_obligations": kfObls,
			"discharged_by_solver":      bySolver,
			"solver_seconds":            round3(solverSecs),
			"contract_files":            cr.engine.db.Files,
			"bounded":                   boundedEv,
			"explanation":               "obligations = contract clauses (post/pre/invariant/safety) of the functions listed, generated from go/ssa of /repo's working tree; each is one or more SMT queries that must be unsat",
		},
		"assumptions": assumptions,
		"wall_s":      round3(time.Since(start).Seconds()),
		"violations":  violations,
	}
	os.MkdirAll(filepath.Join(outDir(), "evidence"), 0o755)
	b, _ := json.MarshalIndent(ev, "", " ")
	os.WriteFile(filepath.Join(outDir(), "evidence", prop+".json"), append(b, '\n'), 0o644)
	fmt.Printf("%s: %d/%d claimed obligations discharged, %d known-finding obligations, %d violations, %.1fs\n", prop, discharged, claimed, len(kfObls), violations, time.Since(start).Seconds())
	if exit == 0 && claimed != discharged {
		// cannot happen without a violation line, but never report success on an undischarged claim
		fmt.Println("BROKEN-CHECK claimed obligations undischarged without a violation record")
		exit = 2
	}
	if violations > 0 {
		// a failing obligation is reported as what it is even when, on the same tree, other obligations could not be
		// generated (their BROKEN-CHECK lines stay in the output): exit 1 with the VIOLATION lines above
		exit = 1
	}
	return exit
}

func round3(f float64) float64 { return float64(int(f*1000+0.5)) / 1000 }

func writeReplay(cr *checkRun, r *OblResult, sr *SiteResult) string {
	name := r.Obl.Name()
	file := filepath.Join(outDir(), "out", "replay", sanitizeFile(name+"__"+sr.Site.Sig)+".json")
	rep := map[string]interface{}{
		"property":      cr.prop,
		"obligation":    name,
		"kind":          r.Obl.Kind,
		"clause":        r.Obl.Src,
		"site":          sr.Site.Sig,
		"what":          sr.Site.What,
		"solver":        sr.Res.Solver,
		"solver_status": sr.Status,
		"solver_output": truncate(sr.Res.Output, 20000),
		"function":      topName(r.Obl.tr),
	}
	suffix := " no-failing-input-found"
	if sr.Status == "sat" {
		ok, detail := tryReplay(cr, r, sr, rep)
		rep["replay"] = detail
		if ok {
			suffix = ""
		}
	} else {
		rep["replay"] = "solver returned " + sr.Status + " (no model); the obligation is expected to discharge and does not"
		if bat := batteryFor(r.Obl.Prop); bat != "" {
			if ok, detail := replayBattery(bat, rep); ok {
				rep["replay"] = rep["replay"].(string) + "; " + detail
				suffix = ""
			}
		}
	}
	b, _ := json.MarshalIndent(rep, "", " ")
	os.WriteFile(file, append(b, '\n'), 0o644)
	return fmt.Sprintf("VIOLATION property=%s replay=%s obligation=%s site=%q%s", cr.prop, file, name, sr.Site.Sig, suffix)
}

func sanitizeFile(s string) string {
	var sb strings.Builder
	for _, r := range s {
		if r == '.' || r == '-' || r == '_' || (r >= '0' && r <= '9') || (r >= 'a' && r <= 'z') || (r >= 'A' && r <= 'Z') {
			sb.WriteRune(r)
		} else {
			sb.WriteByte('_')
		}
	}
	out := sb.String()
	if len(out) > 150 {
		out = out[:150]
	}
	return out
}

func truncate(s string, n int) string {
	if len(s) > n {
		return s[:n] + "...[truncated]"
	}
	return s
}

// coverStatus: "sat" if some return is reachable under the preconditions, "unsat" if all tried covers are unsat.
func coverStatus(tr *Tr, timeout int) string {
	if len(tr.covers) == 0 {
		return "no-returns"
	}
	// reachability is only a guard against vacuous contracts: every cover is tried by both solvers at once with a short
	// limit; the first `sat` settles it, `unknown`/timeouts do not alarm
	if timeout > 4 {
		timeout = 4
	}
	type res struct{ st string }
	ch := make(chan res, 2*len(tr.covers))
	n := 0
	for _, c := range tr.covers {
		q := tr.script(c.Goal, false)
		for _, sv := range []string{"z3-new", "cvc5"} {
			n++
			go func(q, sv string) { ch <- res{solve(q, timeout, []string{sv}).Status} }(q, sv)
		}
	}
	st := "unsat"
	for i := 0; i < n; i++ {
		r := <-ch
		if r.st == "sat" {
			return "sat"
		}
		if r.st != "unsat" {
			st = r.st
		}
	}
	return st
}

// cmdLoops prints loop ordinals, header phis and the calls in each loop body (help for writing invariants).
func cmdLoops(args []string) int {
	e, err := LoadEngine(repoDir(), filepath.Join(verifDir, "specs"))
	if err != nil {
		fmt.Fprintln(os.Stderr, err)
		return 2
	}
	for k, fn := range e.funcs {
		if len(args) > 0 && !strings.Contains(k, args[0]) {
			continue
		}
		tr := &Tr{eng: e, top: fn, declared: map[string]bool{}, sorts: map[string]string{}, obls: map[string]*Obl{}, init: &State{H: map[string]string{}}, used: map[string]bool{}}
		f := tr.newFrame(fn, nil)
		var hs []int
		for h := range f.loops {
			hs = append(hs, h)
		}
		sort.Ints(hs)
		if len(hs) == 0 {
			continue
		}
		fmt.Println(k)
		for _, h := range hs {
			li := f.loops[h]
			var body []int
			for b := range li.body {
				body = append(body, b)
			}
			sort.Ints(body)
			fmt.Printf("  loop %d: header b%d (%s) body %v\n", li.ordinal, h, li.header.Comment, body)
			for _, in := range li.header.Instrs {
				if phi, ok := in.(*ssa.Phi); ok {
					fmt.Printf("      phi %s %q : %s\n", phi.Name(), phi.Comment, phi.Type())
				}
			}
			for _, b := range body {
				for _, in := range fn.Blocks[b].Instrs {
					if nm, ok := f.callName[in]; ok {
						fmt.Printf("      b%d call %s\n", b, nm)
					}
				}
			}
		}
	}
	return 0
}

func topName(tr *Tr) string {
	if tr.top == nil {
		return "lemma"
	}
	return tr.top.String()
}

// outDir: where evidence and replay files go (/verif; scratch evaluations of seeded changes redirect it with STFS_OUT so
// that they never overwrite the evidence of the real tree).
func outDir() string {
	if d := os.Getenv("STFS_OUT"); d != "" {
		return d
	}
	return verifDir
}
