package main

import (
	"fmt"
	"os"

	"golang.org/x/tools/go/packages"
	"golang.org/x/tools/go/ssa"
	"golang.org/x/tools/go/ssa/ssautil"
)

func main() {
	cfg := &packages.Config{Mode: packages.LoadAllSyntax, Dir: "/repo", BuildFlags: []string{"-tags=verif"}}
	pkgs, err := packages.Load(cfg, "./pkg/...", "./internal/...")
	if err != nil {
		panic(err)
	}
	prog, _ := ssautil.AllPackages(pkgs, ssa.InstantiateGenerics)
	prog.Build()
	for fn := range ssautil.AllFunctions(prog) {
		if fn.Pkg != nil && fn.Pkg.Pkg.Path() == "github.com/pojntfx/stfs/pkg/operations" && fn.Name() == os.Args[1] {
			fn.WriteTo(os.Stdout)
		}
	}
	fmt.Println("ok")
}
