package main

// Bounded stand-ins (labelled, never counted as proved): real functions outside the VC generator's reach (SQL run by
// SQLite) executed exhaustively over a small scope through `go test -overlay`.

import (
	"encoding/json"
	"fmt"
	"os"
	"os/exec"
	"path/filepath"
	"regexp"
	"strconv"
	"strings"
	"sync"
	"time"
)

type BoundedSpec struct {
	Property string   `json:"property"`
	Name     string   `json:"name"`
	Pkg      string   `json:"pkg"`
	Files    []string `json:"files"`
	Run      string   `json:"run"`
	Bound    string   `json:"bound"`
}

type BoundedResult struct {
	Spec       BoundedSpec
	Cases      int
	Failing    int
	Violations []string
	Secs       float64
	Err        string
}

var boundedOK = regexp.MustCompile(`^BOUNDED-OK (\S+) cases=(\d+) failing=(\d+)`)

func runBounded(prop, tier string) []*BoundedResult {
	var specs []BoundedSpec
	if err := loadJSON(filepath.Join(verifDir, "bounded", "manifest.json"), &specs); err != nil {
		return nil
	}
	var out []*BoundedResult
	var wg sync.WaitGroup
	for _, sp := range specs {
		if sp.Property != prop {
			continue
		}
		r := &BoundedResult{Spec: sp}
		out = append(out, r)
		wg.Add(1)
		go func(sp BoundedSpec, r *BoundedResult) {
			defer wg.Done()
			start := time.Now()
			ov := map[string]map[string]string{"Replace": {}}
			for _, f := range sp.Files {
				ov["Replace"][filepath.Join(repoDir(), sp.Pkg, "zz_verif_"+f)] = filepath.Join(verifDir, "bounded", f)
			}
			ovFile := filepath.Join(scratchDir(), "overlay_"+strings.ReplaceAll(sp.Name, ":", "_")+".json")
			b, _ := json.Marshal(ov)
			os.WriteFile(ovFile, b, 0o644)
			cmd := exec.Command("go", "test", "-overlay", ovFile, "-v", "-vet=off", "-count=1", "-timeout", "1200s", "-run", sp.Run, "./"+sp.Pkg+"/")
			cmd.Dir = repoDir()
			cmd.Env = append(os.Environ(), "GOFLAGS=-mod=mod", "GOPROXY=off", "GOSUMDB=off", "GOTOOLCHAIN=local", "VERIF_TIER="+tier)
			outb, err := cmd.CombinedOutput()
			r.Secs = time.Since(start).Seconds()
			seenOK := false
			for _, line := range strings.Split(string(outb), "\n") {
				if m := boundedOK.FindStringSubmatch(line); m != nil {
					seenOK = true
					r.Cases, _ = strconv.Atoi(m[2])
					r.Failing, _ = strconv.Atoi(m[3])
				}
				if strings.HasPrefix(line, "BOUNDED-VIOLATION ") {
					r.Violations = append(r.Violations, strings.TrimPrefix(line, "BOUNDED-VIOLATION "))
				}
			}
			if !seenOK {
				r.Err = fmt.Sprintf("bounded test did not report (err=%v): %s", err, truncate(string(outb), 2000))
			}
		}(sp, r)
	}
	wg.Wait()
	return out
}
