package main

// Contract expression language: lexer, Pratt parser and AST.
//
//   e := e "==>" e | e "<==>" e | e "||" e | e "&&" e | e cmp e | e ("+"|"-") e | e ("*"|"/"|"%") e
//      | "!" e | "-" e | atom { "." ident | "[" e "]" | "(" args ")" }
//      | "old" "(" e ")" | "forall" x sort {"," x sort} "::" e | "exists" ... | "(" e ")"
//      | int | string | "true" | "false" | "nil" | ident
//
// Identifiers may be qualified (`os.ErrPermission`, `sql.ErrNoRows`): a selector whose base is not a bound
// variable is resolved as package-level name by the translator.

import (
	"fmt"
	"strings"
	"unicode"
)

type ExprKind int

const (
	EIdent ExprKind = iota
	EInt
	EStr
	EBool
	ENil
	EUnary  // Op, A
	EBinary // Op, A, B
	ESel    // A . Name
	EIndex  // A [ B ]
	ECall   // Name ( Args ) ; or A ( Args ) when A is selector (pkg.f)
	EOld    // A
	EQuant  // Op = forall/exists ; Vars ; A
	ECond   // ite(c, a, b) via call "ite"
)

type QVar struct {
	Name string
	Sort string
}

type Expr struct {
	K    ExprKind
	Op   string
	Name string
	Int  string
	Str  string
	B    bool
	A, C *Expr
	Bx   *Expr
	Args []*Expr
	Vars []QVar
	Pos  int
}

func (e *Expr) String() string {
	if e == nil {
		return "<nil>"
	}
	switch e.K {
	case EIdent:
		return e.Name
	case EInt:
		return e.Int
	case EStr:
		return fmt.Sprintf("%q", e.Str)
	case EBool:
		if e.B {
			return "true"
		}
		return "false"
	case ENil:
		return "nil"
	case EUnary:
		return e.Op + e.A.String()
	case EBinary:
		return "(" + e.A.String() + " " + e.Op + " " + e.Bx.String() + ")"
	case ESel:
		return e.A.String() + "." + e.Name
	case EIndex:
		return e.A.String() + "[" + e.Bx.String() + "]"
	case ECall:
		var as []string
		for _, a := range e.Args {
			as = append(as, a.String())
		}
		if e.A != nil {
			return e.A.String() + "(" + strings.Join(as, ", ") + ")"
		}
		return e.Name + "(" + strings.Join(as, ", ") + ")"
	case EOld:
		return "old(" + e.A.String() + ")"
	case EQuant:
		var vs []string
		for _, v := range e.Vars {
			vs = append(vs, v.Name+" "+v.Sort)
		}
		return e.Op + " " + strings.Join(vs, ", ") + " :: " + e.A.String()
	}
	return "?"
}

type tok struct {
	kind string // ident int str op eof
	text string
	pos  int
}

func lexExpr(s string) ([]tok, error) {
	var toks []tok
	i := 0
	for i < len(s) {
		c := s[i]
		switch {
		case c == ' ' || c == '\t':
			i++
		case unicode.IsLetter(rune(c)) || c == '_':
			j := i
			for j < len(s) && (unicode.IsLetter(rune(s[j])) || unicode.IsDigit(rune(s[j])) || s[j] == '_') {
				j++
			}
			toks = append(toks, tok{"ident", s[i:j], i})
			i = j
		case unicode.IsDigit(rune(c)):
			j := i
			for j < len(s) && (unicode.IsDigit(rune(s[j])) || s[j] == 'x' || (s[j] >= 'a' && s[j] <= 'f') || (s[j] >= 'A' && s[j] <= 'F')) {
				j++
			}
			toks = append(toks, tok{"int", s[i:j], i})
			i = j
		case c == '"':
			j := i + 1
			var sb strings.Builder
			for j < len(s) && s[j] != '"' {
				if s[j] == '\\' && j+1 < len(s) {
					j++
					switch s[j] {
					case 'n':
						sb.WriteByte('\n')
					case 't':
						sb.WriteByte('\t')
					default:
						sb.WriteByte(s[j])
					}
				} else {
					sb.WriteByte(s[j])
				}
				j++
			}
			if j >= len(s) {
				return nil, fmt.Errorf("unterminated string at %d", i)
			}
			toks = append(toks, tok{"str", sb.String(), i})
			i = j + 1
		default:
			ops := []string{"<==>", "==>", "::", "&&", "||", "==", "!=", "<=", ">=", "<", ">", "+", "-", "*", "/", "%", "!", "(", ")", "[", "]", ".", ",", "&", "|"}
			matched := false
			for _, op := range ops {
				if strings.HasPrefix(s[i:], op) {
					toks = append(toks, tok{"op", op, i})
					i += len(op)
					matched = true
					break
				}
			}
			if !matched {
				return nil, fmt.Errorf("unexpected character %q at %d in %q", c, i, s)
			}
		}
	}
	toks = append(toks, tok{"eof", "", len(s)})
	return toks, nil
}

type exprParser struct {
	toks []tok
	p    int
	src  string
}

func ParseExpr(s string) (*Expr, error) {
	toks, err := lexExpr(s)
	if err != nil {
		return nil, err
	}
	p := &exprParser{toks: toks, src: s}
	e, err := p.parse(0)
	if err != nil {
		return nil, err
	}
	if p.peek().kind != "eof" {
		return nil, fmt.Errorf("trailing input at %d in %q", p.peek().pos, s)
	}
	return e, nil
}

func (p *exprParser) peek() tok { return p.toks[p.p] }
func (p *exprParser) next() tok { t := p.toks[p.p]; p.p++; return t }
func (p *exprParser) accept(op string) bool {
	if p.peek().kind == "op" && p.peek().text == op {
		p.p++
		return true
	}
	return false
}
func (p *exprParser) expect(op string) error {
	if !p.accept(op) {
		return fmt.Errorf("expected %q at %d in %q", op, p.peek().pos, p.src)
	}
	return nil
}

var binPrec = map[string]int{
	"<==>": 1, "==>": 2, "||": 3, "&&": 4,
	"==": 5, "!=": 5, "<": 5, "<=": 5, ">": 5, ">=": 5,
	"+": 6, "-": 6, "|": 6,
	"*": 7, "/": 7, "%": 7, "&": 7,
}

func (p *exprParser) parse(minPrec int) (*Expr, error) {
	lhs, err := p.parseUnary()
	if err != nil {
		return nil, err
	}
	for {
		t := p.peek()
		if t.kind != "op" {
			break
		}
		prec, ok := binPrec[t.text]
		if !ok || prec < minPrec {
			break
		}
		p.next()
		nextMin := prec + 1
		if t.text == "==>" { // right associative
			nextMin = prec
		}
		rhs, err := p.parse(nextMin)
		if err != nil {
			return nil, err
		}
		lhs = &Expr{K: EBinary, Op: t.text, A: lhs, Bx: rhs, Pos: t.pos}
	}
	return lhs, nil
}

func (p *exprParser) parseUnary() (*Expr, error) {
	t := p.peek()
	if t.kind == "op" && (t.text == "!" || t.text == "-") {
		p.next()
		a, err := p.parseUnary()
		if err != nil {
			return nil, err
		}
		return &Expr{K: EUnary, Op: t.text, A: a, Pos: t.pos}, nil
	}
	return p.parsePostfix()
}

func (p *exprParser) parsePostfix() (*Expr, error) {
	a, err := p.parseAtom()
	if err != nil {
		return nil, err
	}
	for {
		switch {
		case p.accept("."):
			t := p.next()
			if t.kind != "ident" {
				return nil, fmt.Errorf("expected field name at %d in %q", t.pos, p.src)
			}
			a = &Expr{K: ESel, A: a, Name: t.text, Pos: t.pos}
		case p.accept("["):
			i, err := p.parse(0)
			if err != nil {
				return nil, err
			}
			if err := p.expect("]"); err != nil {
				return nil, err
			}
			a = &Expr{K: EIndex, A: a, Bx: i}
		case p.peek().kind == "op" && p.peek().text == "(" && (a.K == EIdent || a.K == ESel):
			p.next()
			var args []*Expr
			if !p.accept(")") {
				for {
					e, err := p.parse(0)
					if err != nil {
						return nil, err
					}
					args = append(args, e)
					if p.accept(")") {
						break
					}
					if err := p.expect(","); err != nil {
						return nil, err
					}
				}
			}
			if a.K == EIdent {
				if a.Name == "old" {
					if len(args) != 1 {
						return nil, fmt.Errorf("old takes one argument")
					}
					a = &Expr{K: EOld, A: args[0]}
				} else {
					a = &Expr{K: ECall, Name: a.Name, Args: args}
				}
			} else {
				a = &Expr{K: ECall, A: a, Args: args}
			}
		default:
			return a, nil
		}
	}
}

func (p *exprParser) parseAtom() (*Expr, error) {
	t := p.next()
	switch t.kind {
	case "int":
		return &Expr{K: EInt, Int: t.text, Pos: t.pos}, nil
	case "str":
		return &Expr{K: EStr, Str: t.text, Pos: t.pos}, nil
	case "ident":
		switch t.text {
		case "true":
			return &Expr{K: EBool, B: true}, nil
		case "false":
			return &Expr{K: EBool, B: false}, nil
		case "nil":
			return &Expr{K: ENil}, nil
		case "forall", "exists":
			var vars []QVar
			for {
				n := p.next()
				if n.kind != "ident" {
					return nil, fmt.Errorf("expected bound variable at %d in %q", n.pos, p.src)
				}
				s := p.next()
				if s.kind != "ident" {
					return nil, fmt.Errorf("expected sort at %d in %q", s.pos, p.src)
				}
				vars = append(vars, QVar{n.text, s.text})
				if p.accept(",") {
					continue
				}
				break
			}
			if err := p.expect("::"); err != nil {
				return nil, err
			}
			body, err := p.parse(0)
			if err != nil {
				return nil, err
			}
			return &Expr{K: EQuant, Op: t.text, Vars: vars, A: body}, nil
		}
		return &Expr{K: EIdent, Name: t.text, Pos: t.pos}, nil
	case "op":
		if t.text == "(" {
			e, err := p.parse(0)
			if err != nil {
				return nil, err
			}
			if err := p.expect(")"); err != nil {
				return nil, err
			}
			return e, nil
		}
	}
	return nil, fmt.Errorf("unexpected token %q at %d in %q", t.text, t.pos, p.src)
}
