package fs

import (
	"testing"

	"github.com/pojntfx/stfs/pkg/config"
)

// F-suffix demonstration: under gzip an (empty) file named like a compressed file keeps its name.
func TestVerifReplay_C03_NameWithCodecSuffixIsKept(t *testing.T) {
	v := newVerifFS(t, false, config.PipeConfig{Compression: config.CompressionFormatGZipKey})
	if _, err := v.fs.Initialize("/", 0o755); err != nil {
		t.Fatal(err)
	}
	f, err := v.fs.Create("/x.gz")
	if err != nil {
		t.Fatalf("Create(/x.gz): %v", err)
	}
	f.Close()
	if _, err := v.fs.Stat("/x.gz"); err != nil {
		t.Errorf("Stat(/x.gz) after Create(/x.gz): %v", err)
	}
	if _, err := v.fs.Stat("/x"); err == nil {
		t.Errorf("Stat(/x) succeeds although only /x.gz was created")
	}
}

// The same for files with content: metadata updates and renames use the plain name on the tape.
func TestVerifReplay_C03_SuffixLikeNamesSurviveChmodAndRename(t *testing.T) {
	v := newVerifFS(t, false, config.PipeConfig{Compression: config.CompressionFormatGZipKey})
	if _, err := v.fs.Initialize("/", 0o755); err != nil {
		t.Fatal(err)
	}
	f, err := v.fs.Create("/y.gz")
	if err != nil {
		t.Fatalf("Create(/y.gz): %v", err)
	}
	f.Write([]byte("content"))
	if err := f.Close(); err != nil {
		t.Fatal(err)
	}
	if err := v.fs.Chmod("/y.gz", 0o600); err != nil {
		t.Fatalf("Chmod(/y.gz): %v", err)
	}
	if info, err := v.fs.Stat("/y.gz"); err != nil || info.Mode().Perm() != 0o600 {
		t.Errorf("Stat(/y.gz) after Chmod: %v %v; want mode 0600", info, err)
	}
	g, err := v.fs.Create("/a")
	if err != nil {
		t.Fatal(err)
	}
	g.Write([]byte("more"))
	g.Close()
	if err := v.fs.Rename("/a", "/b.gz"); err != nil {
		t.Fatalf("Rename(/a, /b.gz): %v", err)
	}
	if _, err := v.fs.Stat("/b.gz"); err != nil {
		t.Errorf("Stat(/b.gz) after Rename(/a, /b.gz): %v", err)
	}
}
