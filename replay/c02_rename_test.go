package fs

import (
	"io"
	"testing"

	"github.com/pojntfx/stfs/pkg/config"
)

func mustWrite(t *testing.T, v *verifFS, name, content string) {
	f, err := v.fs.Create(name)
	if err != nil {
		t.Fatal(err)
	}
	f.Write([]byte(content))
	if err := f.Close(); err != nil {
		t.Fatal(err)
	}
}

// Rename onto an existing file replaces it by the source.
func TestVerifReplay_C02_RenameOntoExistingMoves(t *testing.T) {
	v := newVerifFS(t, false, config.PipeConfig{})
	if _, err := v.fs.Initialize("/", 0o755); err != nil {
		t.Fatal(err)
	}
	mustWrite(t, v, "/src", "source")
	mustWrite(t, v, "/dst", "destination")
	if err := v.fs.Rename("/src", "/dst"); err != nil {
		t.Fatalf("Rename(/src, /dst): %v", err)
	}
	if _, err := v.fs.Stat("/src"); err == nil {
		t.Errorf("/src still exists after Rename(/src, /dst)")
	}
	r, err := v.fs.Open("/dst")
	if err != nil {
		t.Fatalf("/dst is gone after Rename(/src, /dst): %v", err)
	}
	defer r.Close()
	got, _ := io.ReadAll(r)
	if string(got) != "source" {
		t.Errorf("/dst reads %q after Rename(/src, /dst); want \"source\"", got)
	}
}

// Renaming a directory into its own subtree is refused and changes nothing.
func TestVerifReplay_C12_RenameIntoOwnSubtreeRefused(t *testing.T) {
	v := newVerifFS(t, false, config.PipeConfig{})
	if _, err := v.fs.Initialize("/", 0o755); err != nil {
		t.Fatal(err)
	}
	if err := v.fs.Mkdir("/a", 0o755); err != nil {
		t.Fatal(err)
	}
	mustWrite(t, v, "/a/x", "x")
	if err := v.fs.Rename("/a", "/a/b"); err == nil {
		t.Errorf("Rename(/a, /a/b) succeeded")
	}
	if _, err := v.fs.Stat("/a/x"); err != nil {
		t.Errorf("/a/x is gone after Rename(/a, /a/b): %v", err)
	}
}

// F-move demonstration: renaming onto a name that was used and removed before (its tombstone still holds the key).
func TestVerifReplay_C01_RenameOntoPreviouslyRemovedName(t *testing.T) {
	v := newVerifFS(t, false, config.PipeConfig{})
	if _, err := v.fs.Initialize("/", 0o755); err != nil {
		t.Fatal(err)
	}
	mustWrite(t, v, "/a", "first")
	if err := v.fs.Remove("/a"); err != nil {
		t.Fatal(err)
	}
	mustWrite(t, v, "/b", "second")
	if err := v.fs.Rename("/b", "/a"); err != nil {
		t.Fatalf("Rename(/b, /a) after /a was removed: %v", err)
	}
	if _, err := v.fs.Stat("/b"); err == nil {
		t.Errorf("/b still exists after Rename(/b, /a)")
	}
	r, err := v.fs.Open("/a")
	if err != nil {
		t.Fatalf("/a missing after Rename(/b, /a): %v", err)
	}
	got, _ := io.ReadAll(r)
	r.Close()
	if string(got) != "second" {
		t.Errorf("/a reads %q; want \"second\"", got)
	}
	// a rebuild of the tape into a fresh index must succeed and agree
	v2 := openVerifFS(t, t.TempDir(), v.drive, false, config.PipeConfig{})
	if _, err := v2.fs.Initialize("/", 0o755); err != nil {
		t.Fatalf("rebuild: %v", err)
	}
	if _, err := v2.fs.Stat("/a"); err != nil {
		t.Errorf("rebuilt index: /a: %v", err)
	}
	if _, err := v2.fs.Stat("/b"); err == nil {
		t.Errorf("rebuilt index: /b still exists")
	}
}
