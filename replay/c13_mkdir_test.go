package fs

import (
	"testing"

	"github.com/pojntfx/stfs/pkg/config"
)

// F-parentdir: nothing can be created below a regular file. F-mkdirall: MkdirAll creates every missing prefix.
func TestVerifReplay_C13_ParentMustBeDirectory(t *testing.T) {
	v := newVerifFS(t, false, config.PipeConfig{})
	if _, err := v.fs.Initialize("/", 0o755); err != nil {
		t.Fatal(err)
	}
	f, err := v.fs.Create("/f")
	if err != nil {
		t.Fatal(err)
	}
	f.Close()
	if err := v.fs.Mkdir("/f/d", 0o755); err == nil {
		t.Errorf("Mkdir(/f/d) below the regular file /f succeeded")
	}
	if g, err := v.fs.Create("/f/x"); err == nil {
		g.Close()
		t.Errorf("Create(/f/x) below the regular file /f succeeded")
	}
}

func TestVerifReplay_C13_MkdirAllCreatesEveryPrefix(t *testing.T) {
	v := newVerifFS(t, false, config.PipeConfig{})
	if _, err := v.fs.Initialize("/", 0o755); err != nil {
		t.Fatal(err)
	}
	if err := v.fs.MkdirAll("/x/y/z", 0o755); err != nil {
		t.Fatalf("MkdirAll(/x/y/z): %v", err)
	}
	for _, d := range []string{"/x", "/x/y", "/x/y/z"} {
		info, err := v.fs.Stat(d)
		if err != nil || !info.IsDir() {
			t.Errorf("Stat(%s) after MkdirAll(/x/y/z): %v %v; want a directory", d, info, err)
		}
	}
	if err := v.fs.MkdirAll("/x/y/z", 0o755); err != nil {
		t.Errorf("second MkdirAll(/x/y/z): %v", err)
	}
}
