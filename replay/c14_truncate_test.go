package fs

import (
	"io"
	"os"
	"testing"

	"github.com/pojntfx/stfs/pkg/config"
)

// F-truncate demonstration: growing a file with Truncate keeps its content and pads with zeros.
func TestVerifReplay_C14_TruncateGrowKeepsContent(t *testing.T) {
	v := newVerifFS(t, false, config.PipeConfig{})
	if _, err := v.fs.Initialize("/", 0o755); err != nil {
		t.Fatal(err)
	}
	f, err := v.fs.Create("/a")
	if err != nil {
		t.Fatal(err)
	}
	f.Write([]byte("abc"))
	f.Close()
	w, err := v.fs.OpenFile("/a", os.O_RDWR, 0)
	if err != nil {
		t.Fatal(err)
	}
	if err := w.Truncate(5); err != nil {
		t.Fatal(err)
	}
	if err := w.Close(); err != nil {
		t.Fatal(err)
	}
	r, err := v.fs.Open("/a")
	if err != nil {
		t.Fatal(err)
	}
	defer r.Close()
	got, _ := io.ReadAll(r)
	if string(got) != "abc\x00\x00" {
		t.Errorf("content after Truncate(5) on \"abc\" = %q; want \"abc\\x00\\x00\"", got)
	}
}
