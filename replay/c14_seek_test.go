package fs

import (
	"io"
	"testing"

	"github.com/pojntfx/stfs/pkg/config"
)

// F-seek demonstration: offsets reported by Seek on a file opened for reading.
func TestVerifReplay_C14_SeekOffsets(t *testing.T) {
	v := newVerifFS(t, false, config.PipeConfig{})
	if _, err := v.fs.Initialize("/", 0o755); err != nil {
		t.Fatal(err)
	}
	f, err := v.fs.Create("/a")
	if err != nil {
		t.Fatal(err)
	}
	f.Write([]byte("0123456789"))
	f.Close()
	r, err := v.fs.Open("/a")
	if err != nil {
		t.Fatal(err)
	}
	defer r.Close()
	if n, err := r.Seek(3, io.SeekStart); err != nil || n != 3 {
		t.Errorf("Seek(3, Start) = %d, %v; want 3", n, err)
	}
	if n, err := r.Seek(2, io.SeekCurrent); err != nil || n != 5 {
		t.Errorf("Seek(2, Current) after Seek(3, Start) = %d, %v; want 5", n, err)
	}
	if n, err := r.Seek(-2, io.SeekEnd); err != nil || n != 8 {
		t.Errorf("Seek(-2, End) on 10 bytes = %d, %v; want 8", n, err)
	}
	buf := make([]byte, 2)
	if n, _ := io.ReadFull(r, buf); n != 2 || string(buf) != "89" {
		t.Errorf("read after Seek(-2, End) = %q (%d bytes); want \"89\"", buf[:n], n)
	}
	if n, err := r.Seek(-1, io.SeekStart); err == nil {
		t.Errorf("Seek(-1, Start) = %d, nil; want an error", n)
	}
}
