package fs

// Replay for the recorded finding on link rows (C12): a link is stored as a row whose name is its TARGET; records that
// delete or move an entry address it by name only, so removing or renaming a link hits the target.

import (
	"os"
	"testing"

	"github.com/pojntfx/stfs/pkg/config"
)

func TestVerifReplay_C12_RemovingALinkRemovesItsTarget(t *testing.T) {
	a := newVerifFS(t, false, config.PipeConfig{})
	if _, err := a.fs.Initialize("/", os.ModePerm); err != nil {
		t.Fatal(err)
	}
	f, err := a.fs.Create("/t.txt")
	if err != nil {
		t.Fatal(err)
	}
	f.Write([]byte("target"))
	if err := f.Close(); err != nil {
		t.Fatal(err)
	}
	if err := a.fs.SymlinkIfPossible("/t.txt", "/l"); err != nil {
		t.Fatal(err)
	}
	if err := a.fs.Remove("/l"); err != nil {
		t.Fatalf("Remove(/l): %v", err)
	}
	if _, err := a.fs.Stat("/t.txt"); err != nil {
		t.Errorf("Remove(\"/l\") of a link removed its target /t.txt: %v", err)
	}
	if _, _, err := a.fs.LstatIfPossible("/l"); err == nil {
		t.Errorf("Remove(\"/l\") left the link in place")
	}
}

func TestVerifReplay_C12_RenamingALinkMovesItsTarget(t *testing.T) {
	a := newVerifFS(t, false, config.PipeConfig{})
	if _, err := a.fs.Initialize("/", os.ModePerm); err != nil {
		t.Fatal(err)
	}
	f, err := a.fs.Create("/t.txt")
	if err != nil {
		t.Fatal(err)
	}
	f.Write([]byte("target"))
	if err := f.Close(); err != nil {
		t.Fatal(err)
	}
	if err := a.fs.SymlinkIfPossible("/t.txt", "/l"); err != nil {
		t.Fatal(err)
	}
	if err := a.fs.Rename("/l", "/l2"); err != nil {
		t.Fatalf("Rename(/l, /l2): %v", err)
	}
	if _, err := a.fs.Stat("/t.txt"); err != nil {
		t.Errorf("Rename(\"/l\", \"/l2\") of a link made its target /t.txt disappear: %v", err)
	}
}
