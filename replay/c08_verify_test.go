package signature

import (
	"testing"

	"github.com/ProtonMail/go-crypto/openpgp"
)

// F-verify demonstration: with PGP signatures configured, malformed or missing signatures must be rejected.
func TestVerifReplay_C08_PGPVerifyStringRejectsGarbage(t *testing.T) {
	e, err := openpgp.NewEntity("t", "", "t@example.com", nil)
	if err != nil {
		t.Fatal(err)
	}
	keys := openpgp.EntityList{e}
	for _, sig := range []string{"!!notbase64", "", "AAAA"} {
		if err := VerifyString("payload", true, "pgp", keys, sig); err == nil {
			t.Errorf("VerifyString accepted signature %q", sig)
		}
	}
	if err := VerifyString("payload", true, "pgp", "not a key ring", "AAAA"); err == nil {
		t.Errorf("VerifyString accepted with a recipient of the wrong type")
	}
	if err := VerifyString("payload", true, "pgp", openpgp.EntityList{}, "AAAA"); err == nil {
		t.Errorf("VerifyString accepted with an empty key ring")
	}
}
