package fs

// Scenario-battery replay template: when a content / position / torn-tail obligation fails and the solver's model has
// no direct rendering as a byte-level input (the failing clause talks about stream wiring or ghost state), the check
// instantiates the family of inputs the clause quantifies over on the REAL code and looks for a concrete failing one.
//   VERIF_BATTERY  roundtrip | torn | positions | appendonly | ciphertext | readonly | tamper
// The test FAILS (prints FAILING-INPUT lines) when some concrete input shows wrong behaviour; the check then reports
// the violation as replayed. When it passes the violation is still reported, with the suffix no-failing-input-found.
// Self-contained (does not need fs_harness_test.go).

import (
	"archive/tar"
	"bytes"
	"context"
	"fmt"
	"io"
	iofs "io/fs"
	"os"
	"path/filepath"
	"strings"
	"testing"
	"time"

	"github.com/pojntfx/stfs/internal/logging"
	"github.com/pojntfx/stfs/internal/suffix"
	"github.com/pojntfx/stfs/pkg/cache"
	"github.com/pojntfx/stfs/pkg/config"
	"github.com/pojntfx/stfs/pkg/keys"
	"github.com/pojntfx/stfs/pkg/operations"
	"github.com/pojntfx/stfs/pkg/persisters"
	"github.com/pojntfx/stfs/pkg/tape"
	"github.com/pojntfx/stfs/pkg/utility"
)

type batFS struct {
	fs    *STFS
	ro    *operations.Operations
	meta  *persisters.MetadataPersister
	tm    *tape.TapeManager
	drive string
	index string
}

type batCfg struct {
	pipes  config.PipeConfig
	crypto config.CryptoConfig
	label  string
}

func batConfigs(t testing.TB) []batCfg {
	var out []batCfg
	mk := func(comp, enc, sig string) batCfg {
		c := batCfg{pipes: config.PipeConfig{Compression: comp, Encryption: enc, Signature: sig, RecordSize: 20}, label: fmt.Sprintf("compression=%q encryption=%q signature=%q", comp, enc, sig)}
		if enc != "" {
			priv, pub, err := utility.Keygen(config.PipeConfig{Encryption: enc}, config.PasswordConfig{Password: batPassword(enc)})
			if err != nil {
				t.Fatal(err)
			}
			r, err := keys.ParseRecipient(enc, pub)
			if err != nil {
				t.Fatal(err)
			}
			i, err := keys.ParseIdentity(enc, priv, batPassword(enc))
			if err != nil {
				t.Fatal(err)
			}
			c.crypto.Recipient, c.crypto.Identity = r, i
		}
		if sig != "" {
			priv, pub, err := utility.Keygen(config.PipeConfig{Signature: sig}, config.PasswordConfig{Password: batPassword(sig)})
			if err != nil {
				t.Fatal(err)
			}
			r, err := keys.ParseSignerRecipient(sig, pub)
			if err != nil {
				t.Fatal(err)
			}
			i, err := keys.ParseSignerIdentity(sig, priv, batPassword(sig))
			if err != nil {
				t.Fatal(err)
			}
			// signing uses Identity, verification uses Recipient: with both encryption and signature the two roles
			// need different key pairs, which one CryptoConfig cannot hold; the battery keeps them apart
			if enc == "" {
				c.crypto.Recipient, c.crypto.Identity = r, i
			} else {
				return batCfg{}
			}
		}
		return c
	}
	comps := []string{"", config.CompressionFormatGZipKey, config.CompressionFormatLZ4Key, config.CompressionFormatZStandardKey}
	if os.Getenv("VERIF_ALL_FORMATS") != "" {
		comps = config.KnownCompressionFormats
	}
	for _, comp := range comps {
		out = append(out, mk(comp, "", ""))
	}
	out = append(out, mk("", config.EncryptionFormatAgeKey, ""), mk(config.CompressionFormatGZipKey, config.EncryptionFormatAgeKey, ""))
	out = append(out, mk("", "", config.SignatureFormatMinisignKey), mk(config.CompressionFormatZStandardKey, "", config.SignatureFormatMinisignKey))
	if os.Getenv("VERIF_ALL_FORMATS") != "" {
		out = append(out, mk("", config.EncryptionFormatPGPKey, ""), mk(config.CompressionFormatBrotliKey, config.EncryptionFormatPGPKey, ""), mk("", "", config.SignatureFormatPGPKey), mk(config.CompressionFormatLZ4Key, "", config.SignatureFormatPGPKey))
	}
	var keep []batCfg
	for _, c := range out {
		if c.label != "" {
			keep = append(keep, c)
		}
	}
	return keep
}

var batReadOnlyFlag = false

func batPassword(format string) string {
	if format == "pgp" {
		return "verif-battery"
	}
	return ""
}

func batOpen(t testing.TB, dir string, c batCfg, drive, index string) *batFS {
	tm := tape.NewTapeManager(drive, nil, c.pipes.RecordSize, false)
	meta := persisters.NewMetadataPersister(index)
	if err := meta.Open(); err != nil {
		t.Fatal(err)
	}
	backend := config.BackendConfig{GetWriter: tm.GetWriter, CloseWriter: tm.Close, GetReader: tm.GetReader, CloseReader: tm.Close}
	mc := config.MetadataConfig{Metadata: meta}
	ro := operations.NewOperations(backend, mc, c.pipes, c.crypto, func(*config.HeaderEvent) {})
	wo := operations.NewOperations(backend, mc, c.pipes, c.crypto, func(*config.HeaderEvent) {})
	f := NewSTFS(ro, wo, mc, config.CompressionLevelFastestKey, func() (cache.WriteCache, func() error, error) {
		return cache.NewCacheWrite(filepath.Join(dir, "wc"), config.WriteCacheTypeMemory)
	}, batReadOnlyFlag, false, func(*config.Header) {}, logging.NewJSONLogger(0))
	return &batFS{fs: f, ro: ro, meta: meta, tm: tm, drive: drive, index: index}
}

func batContent(n int, seed byte) []byte {
	b := make([]byte, n)
	x := uint32(seed) + 1
	for i := range b {
		x = x*1664525 + 1013904223
		if i%7 < 4 { // compressible stretches and noise
			b[i] = byte(i / 97)
		} else {
			b[i] = byte(x >> 24)
		}
	}
	return b
}

func batUnder(t testing.TB, d time.Duration, what string, fn func() error) (err error, hung bool) {
	done := make(chan error, 1)
	go func() {
		defer func() {
			if r := recover(); r != nil {
				done <- fmt.Errorf("panic: %v", r)
			}
		}()
		done <- fn()
	}()
	select {
	case e := <-done:
		return e, false
	case <-time.After(d):
		t.Errorf("FAILING-INPUT: %s did not return within %v", what, d)
		return nil, true
	}
}

func batWrite(f *STFS, name string, content []byte) error {
	h, err := f.Create(name)
	if err != nil {
		return err
	}
	if _, err := h.Write(content); err != nil {
		return err
	}
	return h.Close()
}

type batSink struct{ bytes.Buffer }

func (*batSink) Close() error { return nil }

// batRestore reads an entry through Operations.Restore (the read path below File, which reports errors instead of
// panicking in a background goroutine: that is a separate, recorded finding of C10).
func batRestore(b *batFS, name string) ([]byte, error) {
	sink := &batSink{}
	err := b.ro.Restore(func(string, iofs.FileMode) (io.WriteCloser, error) { return sink, nil }, func(string, iofs.FileMode) error { return nil }, name, "", true)
	return sink.Bytes(), err
}

func batRead(f *STFS, name string) ([]byte, error) {
	h, err := f.Open(name)
	if err != nil {
		return nil, err
	}
	b, err := io.ReadAll(h)
	if cerr := h.Close(); err == nil {
		err = cerr
	}
	return b, err
}

var batSizes = []int{0, 1, 511, 512, 513, 10240, 70001}

func TestVerifReplay_Battery(t *testing.T) {
	switch os.Getenv("VERIF_BATTERY") {
	case "roundtrip":
		batRoundTrip(t)
	case "torn":
		batTorn(t)
	case "positions":
		batPositions(t)
	case "appendonly":
		batAppendOnly(t)
	case "ciphertext":
		batCiphertext(t)
	case "readonly":
		batReadOnly(t)
	case "tamper":
		batTamper(t)
	default:
		t.Skip("VERIF_BATTERY not set")
	}
}

// roundtrip: every pipeline configuration, every size class: what was written is what a fresh instance (index rebuilt
// from the tape alone) reads back, byte for byte, with the size the listing reports.
func batRoundTrip(t *testing.T) {
	for _, c := range batConfigs(t) {
		dir := t.TempDir()
		a := batOpen(t, dir, c, filepath.Join(dir, "drive.tar"), filepath.Join(dir, "index.sqlite"))
		if _, err := a.fs.Initialize("/", os.ModePerm); err != nil {
			t.Fatalf("%s: initialize: %v", c.label, err)
		}
		want := map[string][]byte{}
		for i, n := range batSizes {
			name := fmt.Sprintf("/f%d.bin", n)
			want[name] = batContent(n, byte(i))
			if err := batWrite(a.fs, name, want[name]); err != nil {
				t.Errorf("FAILING-INPUT: %s: writing %d bytes to %s: %v", c.label, n, name, err)
			}
		}
		// overwrite one file with shorter content, then another with longer
		want["/f513.bin"] = batContent(100, 77)
		if err := batWrite(a.fs, "/f513.bin", want["/f513.bin"]); err != nil {
			t.Errorf("FAILING-INPUT: %s: rewriting /f513.bin: %v", c.label, err)
		}
		// a file whose own name ends with the codec suffix of this configuration, next to its sibling without it
		if sfx, err := suffix.AddSuffix("", c.pipes.Compression, c.pipes.Encryption); err == nil && sfx != "" {
			want["/plain"] = batContent(900, 41)
			want["/keep"+sfx] = batContent(300, 43)
			for _, w := range []struct {
				name string
				size int
				seed byte
			}{{"/plain", 900, 41}, {"/plain" + sfx, 900, 42}, {"/keep" + sfx, 300, 43}} {
				if err := batWrite(a.fs, w.name, batContent(w.size, w.seed)); err != nil {
					t.Errorf("FAILING-INPUT: %s: writing %s: %v", c.label, w.name, err)
				}
			}
			if err := a.fs.Remove("/plain" + sfx); err != nil {
				t.Errorf("FAILING-INPUT: %s: removing %s: %v", c.label, "/plain"+sfx, err)
			}
			if _, err := a.fs.Stat("/plain" + sfx); err == nil {
				t.Errorf("FAILING-INPUT: %s: Remove(%q) left it in place", c.label, "/plain"+sfx)
			}
		}
		for pass, inst := range []*batFS{a, nil} {
			if inst == nil {
				inst = batOpen(t, dir, c, a.drive, filepath.Join(dir, "index2.sqlite"))
				if _, err := inst.fs.Initialize("/", os.ModePerm); err != nil {
					t.Errorf("FAILING-INPUT: %s: rebuilding the index from the tape: %v", c.label, err)
					continue
				}
			}
			for name, w := range want {
				got, err := batRead(inst.fs, name)
				if err != nil {
					t.Errorf("FAILING-INPUT: %s: pass %d: reading %s (%d bytes written): %v", c.label, pass, name, len(w), err)
					continue
				}
				if !bytes.Equal(got, w) {
					t.Errorf("FAILING-INPUT: %s: pass %d: %s: wrote %d bytes, read back %d bytes (equal prefix %d)", c.label, pass, name, len(w), len(got), batPrefix(got, w))
				}
				if fi, err := inst.fs.Stat(name); err != nil {
					t.Errorf("FAILING-INPUT: %s: pass %d: stat %s: %v", c.label, pass, name, err)
				} else if fi.Size() != int64(len(w)) {
					t.Errorf("FAILING-INPUT: %s: pass %d: %s: listing says %d bytes, content has %d", c.label, pass, name, fi.Size(), len(w))
				}
			}
		}
	}
}

func batPrefix(a, b []byte) int {
	n := 0
	for n < len(a) && n < len(b) && a[n] == b[n] {
		n++
	}
	return n
}

// torn: the tape is cut at many byte offsets inside and after the last record; rebuilding must terminate, every entry
// written before the torn record keeps its content, and reading the torn entry reports an error or the full content.
func batTorn(t *testing.T) {
	for _, c := range batConfigs(t)[:2] {
		dir := t.TempDir()
		a := batOpen(t, dir, c, filepath.Join(dir, "drive.tar"), filepath.Join(dir, "index.sqlite"))
		if _, err := a.fs.Initialize("/", os.ModePerm); err != nil {
			t.Fatal(err)
		}
		first, last := batContent(3000, 1), batContent(30000, 2)
		if err := batWrite(a.fs, "/first.bin", first); err != nil {
			t.Fatal(err)
		}
		st, _ := os.Stat(a.drive)
		before := st.Size()
		if err := batWrite(a.fs, "/last.bin", last); err != nil {
			t.Fatal(err)
		}
		full, err := os.ReadFile(a.drive)
		if err != nil {
			t.Fatal(err)
		}
		var cuts []int
		for cut := len(full) - 1; cut > 512 && len(cuts) < 400; cut -= 257 {
			cuts = append(cuts, cut)
		}
		for _, cut := range cuts {
			d2 := filepath.Join(dir, fmt.Sprintf("cut%d", cut))
			os.MkdirAll(d2, 0o755)
			drive := filepath.Join(d2, "drive.tar")
			if err := os.WriteFile(drive, full[:cut], 0o644); err != nil {
				t.Fatal(err)
			}
			b := batOpen(t, d2, c, drive, filepath.Join(d2, "index.sqlite"))
			_, hung := batUnder(t, 20*time.Second, fmt.Sprintf("%s: rebuilding the index of a tape cut at byte %d of %d", c.label, cut, len(full)), func() error {
				_, err := b.fs.Initialize("/", os.ModePerm)
				return err
			})
			if hung {
				return
			}
			what := fmt.Sprintf("%s: tape cut at byte %d of %d (the first entry's archive ends at byte %d)", c.label, cut, len(full), before)
			check := func(name string, want []byte, mustExist bool) {
				if _, err := b.fs.Stat(name); err != nil {
					if mustExist {
						t.Errorf("FAILING-INPUT: %s: %s was written completely before the cut but is not visible after rebuilding: %v", what, name, err)
					}
					return
				}
				got, err := batRestore(b, name)
				if mustExist && (err != nil || !bytes.Equal(got, want)) {
					t.Errorf("FAILING-INPUT: %s: %s was written completely before the cut but reads %d bytes (written %d), err=%v", what, name, len(got), len(want), err)
				}
				// the entry was created empty and then given its content by a second record: when that second record's
				// header is what the cut tore, the state after the last complete record is the empty file
				if !mustExist && err == nil && len(got) != 0 && !bytes.Equal(got, want) {
					t.Errorf("FAILING-INPUT: %s: reading the torn entry %s returned %d bytes (written %d) without an error", what, name, len(got), len(want))
				}
			}
			check("/first.bin", first, int64(cut) >= before)
			check("/last.bin", last, false)
			os.RemoveAll(d2)
		}
	}
}

// positions: every live row's (record, block) is the start of a tar header on the tape whose entry is that row.
func batPositions(t *testing.T) {
	for _, rs := range []int{1, 3, 20} {
		c := batCfg{pipes: config.PipeConfig{RecordSize: rs}, label: fmt.Sprintf("record size %d", rs)}
		dir := t.TempDir()
		a := batOpen(t, dir, c, filepath.Join(dir, "drive.tar"), filepath.Join(dir, "index.sqlite"))
		if _, err := a.fs.Initialize("/", os.ModePerm); err != nil {
			t.Fatal(err)
		}
		steps := []func() error{
			func() error { return batWrite(a.fs, "/a.bin", batContent(700, 1)) },
			func() error { return a.fs.Mkdir("/d", 0o755) },
			func() error { return batWrite(a.fs, "/d/b.bin", batContent(5000, 2)) },
			func() error { return a.fs.Chmod("/a.bin", 0o600) },
			func() error { return a.fs.Rename("/d", "/e") },
			func() error { return batWrite(a.fs, "/e/b.bin", batContent(1200, 3)) },
			func() error { return batWrite(a.fs, "/c.bin", batContent(0, 4)) },
			func() error { return a.fs.Remove("/c.bin") },
		}
		for i, s := range steps {
			if err := s(); err != nil {
				t.Errorf("FAILING-INPUT: %s: step %d: %v", c.label, i, err)
			}
			batCheckPositions(t, a, c, i)
		}
	}
}

func batCheckPositions(t *testing.T, a *batFS, c batCfg, step int) {
	hdrs, err := a.meta.GetHeaders(context.Background())
	if err != nil {
		t.Fatal(err)
	}
	st, err := os.Stat(a.drive)
	if err != nil {
		t.Fatal(err)
	}
	lastRec, lastBlk, err := a.meta.GetLastIndexedRecordAndBlock(context.Background(), c.pipes.RecordSize)
	if err != nil {
		t.Fatal(err)
	}
	maxOff := int64(-1)
	for _, h := range hdrs {
		for _, pos := range [][2]int64{{h.Record, h.Block}, {h.Lastknownrecord, h.Lastknownblock}} {
			if pos[1] >= int64(c.pipes.RecordSize) || pos[0] < 0 || pos[1] < 0 {
				t.Errorf("FAILING-INPUT: %s: after step %d: %s has position (%d,%d) outside the record grid", c.label, step, h.Name, pos[0], pos[1])
			}
			off := (pos[0]*int64(c.pipes.RecordSize) + pos[1]) * 512
			if off > maxOff {
				maxOff = off
			}
			if off >= st.Size() {
				t.Errorf("FAILING-INPUT: %s: after step %d: %s has position (%d,%d) = byte %d beyond the tape (%d bytes)", c.label, step, h.Name, pos[0], pos[1], off, st.Size())
				continue
			}
			f, err := os.Open(a.drive)
			if err != nil {
				t.Fatal(err)
			}
			f.Seek(off, io.SeekStart)
			th, err := tar.NewReader(f).Next()
			f.Close()
			if err != nil {
				t.Errorf("FAILING-INPUT: %s: after step %d: %s: no tar header at its position (%d,%d): %v", c.label, step, h.Name, pos[0], pos[1], err)
				continue
			}
			if pos[0] == h.Lastknownrecord && pos[1] == h.Lastknownblock {
				if th.Name != h.Name {
					t.Errorf("FAILING-INPUT: %s: after step %d: the record at %s's last-known position (%d,%d) is about %q", c.label, step, h.Name, pos[0], pos[1], th.Name)
				}
			}
		}
		if h.Lastknownrecord < h.Record || (h.Lastknownrecord == h.Record && h.Lastknownblock < h.Block) {
			t.Errorf("FAILING-INPUT: %s: after step %d: %s: last-known position (%d,%d) is before its content position (%d,%d)", c.label, step, h.Name, h.Lastknownrecord, h.Lastknownblock, h.Record, h.Block)
		}
	}
	if len(hdrs) > 0 {
		off := (lastRec*int64(c.pipes.RecordSize) + lastBlk) * 512
		if off < maxOff {
			t.Errorf("FAILING-INPUT: %s: after step %d: index reports last written position (%d,%d) = byte %d, but a live row points to byte %d", c.label, step, lastRec, lastBlk, off, maxOff)
		}
		f, err := os.Open(a.drive)
		if err != nil {
			t.Fatal(err)
		}
		defer f.Close()
		f.Seek(off, io.SeekStart)
		tr := tar.NewReader(f)
		if _, err := tr.Next(); err != nil {
			t.Errorf("FAILING-INPUT: %s: after step %d: no record at the position the index reports as last written (%d,%d): %v", c.label, step, lastRec, lastBlk, err)
		} else if th, err := tr.Next(); err != io.EOF {
			name := ""
			if th != nil {
				name = th.Name
			}
			t.Errorf("FAILING-INPUT: %s: after step %d: the record at the reported last position (%d,%d) is not the final one on the tape (next: %q, %v)", c.label, step, lastRec, lastBlk, name, err)
		}
	}
}

// appendonly: after every call (successful or failing) the tape is its previous content followed by a suffix, a failing
// call appends nothing, the tape is a whole number of 512-byte blocks and an independent tar reader, restarted after
// every trailer, iterates it from the first to the last record; without compression/encryption the member data of each
// live file's content record equals the file's content.
func batAppendOnly(t *testing.T) {
	for _, rs := range []int{1, 20} {
		c := batCfg{pipes: config.PipeConfig{RecordSize: rs}, label: fmt.Sprintf("record size %d", rs)}
		dir := t.TempDir()
		a := batOpen(t, dir, c, filepath.Join(dir, "drive.tar"), filepath.Join(dir, "index.sqlite"))
		if _, err := a.fs.Initialize("/", os.ModePerm); err != nil {
			t.Fatal(err)
		}
		type step struct {
			name string
			run  func() error
		}
		steps := []step{
			{"write /a.bin", func() error { return batWrite(a.fs, "/a.bin", batContent(700, 1)) }},
			{"mkdir /d", func() error { return a.fs.Mkdir("/d", 0o755) }},
			{"mkdir /d again (must fail)", func() error { return a.fs.Mkdir("/d", 0o755) }},
			{"write /d/b.bin", func() error { return batWrite(a.fs, "/d/b.bin", batContent(5000, 2)) }},
			{"remove /missing (must fail)", func() error { return a.fs.Remove("/missing") }},
			{"rename /missing (must fail)", func() error { return a.fs.Rename("/missing", "/x") }},
			{"chmod /a.bin", func() error { return a.fs.Chmod("/a.bin", 0o600) }},
			{"chmod /missing (must fail)", func() error { return a.fs.Chmod("/missing", 0o600) }},
			{"rename /d -> /e", func() error { return a.fs.Rename("/d", "/e") }},
			{"rename /e -> /e/inside (must fail)", func() error { return a.fs.Rename("/e", "/e/inside") }},
			{"rewrite /e/b.bin", func() error { return batWrite(a.fs, "/e/b.bin", batContent(1200, 3)) }},
			{"remove /e (not empty, must fail)", func() error { return a.fs.Remove("/e") }},
			{"mkdir /a.bin/x (must fail)", func() error { return a.fs.Mkdir("/a.bin/x", 0o755) }},
			{"create /a.bin/y (must fail)", func() error { return batWrite(a.fs, "/a.bin/y", []byte("y")) }},
			{"removeall /missing", func() error { return a.fs.RemoveAll("/missing") }},
			{"removeall /e", func() error { return a.fs.RemoveAll("/e") }},
			{"rename /a.bin -> /a.bin", func() error { return a.fs.Rename("/a.bin", "/a.bin") }},
		}
		prev, _ := os.ReadFile(a.drive)
		for i, s := range steps {
			err := s.run()
			cur, rerr := os.ReadFile(a.drive)
			if rerr != nil {
				t.Fatal(rerr)
			}
			if len(cur) < len(prev) || !bytes.Equal(cur[:len(prev)], prev) {
				t.Errorf("FAILING-INPUT: %s: step %d (%s): the tape is not its previous content followed by a suffix (%d bytes before, %d after, common prefix %d)", c.label, i, s.name, len(prev), len(cur), batPrefix(cur, prev))
			}
			if err != nil && len(cur) != len(prev) {
				t.Errorf("FAILING-INPUT: %s: step %d (%s): the call failed (%v) but appended %d bytes", c.label, i, s.name, err, len(cur)-len(prev))
			}
			if strings.Contains(s.name, "must fail") && err == nil {
				t.Errorf("FAILING-INPUT: %s: step %d (%s): the call succeeded", c.label, i, s.name)
			}
			if len(cur)%512 != 0 {
				t.Errorf("FAILING-INPUT: %s: step %d (%s): the tape has %d bytes, not a whole number of 512-byte blocks", c.label, i, s.name, len(cur))
			}
			// independent reader: iterate archive after archive
			off, records := 0, 0
			for off < len(cur) {
				tr := tar.NewReader(bytes.NewReader(cur[off:]))
				n := 0
				for {
					if _, err := tr.Next(); err == io.EOF {
						break
					} else if err != nil {
						t.Errorf("FAILING-INPUT: %s: step %d (%s): a standard tar reader fails in the archive starting at byte %d after %d records: %v", c.label, i, s.name, off, n, err)
						off = len(cur)
						break
					}
					if _, err := io.Copy(io.Discard, tr); err != nil {
						t.Errorf("FAILING-INPUT: %s: step %d (%s): member data unreadable: %v", c.label, i, s.name, err)
					}
					n++
				}
				records += n
				if off >= len(cur) {
					break
				}
				// skip this archive: find the next non-zero block after at least one zero block
				p := off
				sawZero := false
				for p < len(cur) {
					blk := cur[p : p+512]
					zero := true
					for _, b := range blk {
						if b != 0 {
							zero = false
							break
						}
					}
					if zero {
						sawZero = true
					} else if sawZero {
						break
					}
					p += 512
				}
				if p <= off {
					break
				}
				off = p
			}
			prev = cur
		}
	}
}

// ciphertext: with encryption on, no name, link target, owner name or content fragment of any entry appears on the tape.
func batCiphertext(t *testing.T) {
	for _, c := range batConfigs(t) {
		if c.pipes.Encryption == "" {
			continue
		}
		dir := t.TempDir()
		a := batOpen(t, dir, c, filepath.Join(dir, "drive.tar"), filepath.Join(dir, "index.sqlite"))
		if _, err := a.fs.Initialize("/", os.ModePerm); err != nil {
			t.Fatal(err)
		}
		secretContent := bytes.Repeat([]byte("TOP-SECRET-CONTENT-"), 40)
		a.fs.Mkdir("/SECRETDIRNAME", 0o755)
		batWrite(a.fs, "/SECRETDIRNAME/SECRETFILENAME.txt", secretContent)
		a.fs.Chmod("/SECRETDIRNAME/SECRETFILENAME.txt", 0o600)
		a.fs.Rename("/SECRETDIRNAME/SECRETFILENAME.txt", "/SECRETDIRNAME/SECRETNEWNAME.txt")
		a.fs.SymlinkIfPossible("/SECRETDIRNAME/SECRETNEWNAME.txt", "/SECRETLINKNAME")
		batWrite(a.fs, "/SECRETEMPTY", nil)
		a.fs.Remove("/SECRETEMPTY")
		tape, err := os.ReadFile(a.drive)
		if err != nil {
			t.Fatal(err)
		}
		for _, needle := range []string{"SECRETDIRNAME", "SECRETFILENAME", "SECRETNEWNAME", "SECRETLINKNAME", "SECRETEMPTY", "TOP-SECRET-CONTENT"} {
			if i := bytes.Index(tape, []byte(needle)); i >= 0 {
				t.Errorf("FAILING-INPUT: %s: the tape contains %q in the clear at byte %d", c.label, needle, i)
			}
		}
	}
}

// readonly: a read-only instance over an existing tape and index: every mutator is refused and neither the tape nor the
// index rows change; reads still work.
func batReadOnly(t *testing.T) {
	c := batCfg{pipes: config.PipeConfig{RecordSize: 20}, label: "read-only instance"}
	dir := t.TempDir()
	drive, index := filepath.Join(dir, "drive.tar"), filepath.Join(dir, "index.sqlite")
	a := batOpen(t, dir, c, drive, index)
	if _, err := a.fs.Initialize("/", os.ModePerm); err != nil {
		t.Fatal(err)
	}
	a.fs.Mkdir("/d", 0o755)
	batWrite(a.fs, "/d/f.txt", []byte("content"))
	rows := func(b *batFS) string {
		hs, err := b.meta.GetHeaders(context.Background())
		if err != nil {
			t.Fatal(err)
		}
		out := ""
		for _, h := range hs {
			out += fmt.Sprintf("%s|%d|%d|%d|%d|%d|%d;", h.Name, h.Record, h.Block, h.Lastknownrecord, h.Lastknownblock, h.Size, h.Mode)
		}
		return out
	}
	batReadOnlyFlag = true
	defer func() { batReadOnlyFlag = false }()
	b := batOpen(t, dir, c, drive, index)
	tape0, _ := os.ReadFile(drive)
	rows0 := rows(b)
	if _, err := b.fs.Initialize("/", os.ModePerm); err != nil {
		t.Errorf("FAILING-INPUT: read-only Initialize over an existing index: %v", err)
	}
	calls := map[string]func() error{
		"Mkdir":    func() error { return b.fs.Mkdir("/x", 0o755) },
		"MkdirAll": func() error { return b.fs.MkdirAll("/x/y", 0o755) },
		"Create":   func() error { _, err := b.fs.Create("/n"); return err },
		"OpenFile rw": func() error {
			h, err := b.fs.OpenFile("/d/f.txt", os.O_RDWR, 0)
			if err != nil {
				return err
			}
			_, err = h.Write([]byte("zz"))
			if cerr := h.Close(); err == nil {
				err = cerr
			}
			return err
		},
		"OpenFile trunc": func() error {
			h, err := b.fs.OpenFile("/d/f.txt", os.O_RDWR|os.O_TRUNC, 0)
			if err != nil {
				return err
			}
			err = h.Truncate(0)
			h.Close()
			return err
		},
		"Remove":    func() error { return b.fs.Remove("/d/f.txt") },
		"RemoveAll": func() error { return b.fs.RemoveAll("/d") },
		"Rename":    func() error { return b.fs.Rename("/d", "/e") },
		"Chmod":     func() error { return b.fs.Chmod("/d/f.txt", 0o600) },
		"Chown":     func() error { return b.fs.Chown("/d/f.txt", 1, 1) },
		"Chtimes":   func() error { return b.fs.Chtimes("/d/f.txt", time.Unix(1, 0), time.Unix(1, 0)) },
		"Symlink":   func() error { return b.fs.SymlinkIfPossible("/d/f.txt", "/l") },
	}
	for name, call := range calls {
		if err := call(); err == nil {
			t.Errorf("FAILING-INPUT: read-only instance: %s succeeded", name)
		}
		tape1, _ := os.ReadFile(drive)
		if !bytes.Equal(tape0, tape1) {
			t.Errorf("FAILING-INPUT: read-only instance: %s changed the tape (%d -> %d bytes)", name, len(tape0), len(tape1))
			tape0 = tape1
		}
		if r := rows(b); r != rows0 {
			t.Errorf("FAILING-INPUT: read-only instance: %s changed the index rows", name)
			rows0 = r
		}
	}
	if got, err := batRead(b.fs, "/d/f.txt"); err != nil || string(got) != "content" {
		t.Errorf("FAILING-INPUT: read-only instance: reading /d/f.txt gives %q, %v", got, err)
	}
}

// tamper: with signatures on, a tape whose content or header bytes were altered is not accepted: restoring the altered
// entry reports an error (or the index rebuild rejects the record); it never returns altered bytes as if they were right.
func batTamper(t *testing.T) {
	for _, c := range batConfigs(t) {
		if c.pipes.Signature == "" {
			continue
		}
		dir := t.TempDir()
		a := batOpen(t, dir, c, filepath.Join(dir, "drive.tar"), filepath.Join(dir, "index.sqlite"))
		if _, err := a.fs.Initialize("/", os.ModePerm); err != nil {
			t.Fatal(err)
		}
		want := batContent(4000, 9)
		if err := batWrite(a.fs, "/signed.bin", want); err != nil {
			t.Fatal(err)
		}
		full, _ := os.ReadFile(a.drive)
		for _, flip := range []int{len(full) - 1024 - 2000, len(full) - 1024 - 3000, len(full) - 1024 - 100} {
			if flip < 0 {
				continue
			}
			d2 := filepath.Join(dir, fmt.Sprintf("flip%d", flip))
			os.MkdirAll(d2, 0o755)
			mod := append([]byte{}, full...)
			mod[flip] ^= 0x41
			drive := filepath.Join(d2, "drive.tar")
			os.WriteFile(drive, mod, 0o644)
			b := batOpen(t, d2, c, drive, filepath.Join(d2, "index.sqlite"))
			if _, err := b.fs.Initialize("/", os.ModePerm); err != nil {
				continue // rejected while rebuilding
			}
			if _, err := b.fs.Stat("/signed.bin"); err != nil {
				continue
			}
			got, err := batRestore(b, "/signed.bin")
			if err == nil && !bytes.Equal(got, want) {
				t.Errorf("FAILING-INPUT: %s: byte %d of %d on the tape flipped: restoring /signed.bin returned %d altered bytes without an error", c.label, flip, len(full), len(got))
			}
		}
	}
}
