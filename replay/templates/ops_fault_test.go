package operations

// Fault-path replay template (DESIGN 2.5): the real write operations run over a real tar file and a real SQLite
// index; one seam is made to fail as the solver's counterexample path says, then the drive is probed.
//   VERIF_OP     Delete | Move | Update | Archive | Restore
//   VERIF_FAULT  persister:<Method>#<k> | backend:<GetWriter|CloseWriter|GetReader|CloseReader> | drivewrite#<k> | trailer | badsign | badencrypt | src#<k> | none
// The test FAILS when, after the operation returned, the drive cannot be acquired within 2 s (a leaked lock).

import (
	"archive/tar"
	"context"
	"errors"
	"fmt"
	"io"
	"io/fs"
	"os"
	"path/filepath"
	"strconv"
	"strings"
	"testing"
	"time"

	"github.com/pojntfx/stfs/pkg/config"
	"github.com/pojntfx/stfs/pkg/persisters"
	"github.com/pojntfx/stfs/pkg/tape"
)

var errInjected = errors.New("verif: injected fault")

type faultCtl struct {
	armed  bool
	kind   string
	method string
	k      int
	seen   map[string]int
}

func (c *faultCtl) hit(kind, method string) bool {
	if !c.armed || c.kind != kind || (c.method != "" && c.method != method) {
		return false
	}
	c.seen[method]++
	return c.seen[method] == c.k
}

type faultyPersister struct {
	config.MetadataPersister
	c *faultCtl
}

func (p *faultyPersister) UpsertHeader(ctx context.Context, h *config.Header, init bool) error {
	if p.c.hit("persister", "UpsertHeader") {
		return errInjected
	}
	return p.MetadataPersister.UpsertHeader(ctx, h, init)
}
func (p *faultyPersister) UpdateHeaderMetadata(ctx context.Context, h *config.Header) error {
	if p.c.hit("persister", "UpdateHeaderMetadata") {
		return errInjected
	}
	return p.MetadataPersister.UpdateHeaderMetadata(ctx, h)
}
func (p *faultyPersister) MoveHeader(ctx context.Context, o, n string, r, b int64) error {
	if p.c.hit("persister", "MoveHeader") {
		return errInjected
	}
	return p.MetadataPersister.MoveHeader(ctx, o, n, r, b)
}
func (p *faultyPersister) GetHeader(ctx context.Context, n string) (*config.Header, error) {
	if p.c.hit("persister", "GetHeader") {
		return nil, errInjected
	}
	return p.MetadataPersister.GetHeader(ctx, n)
}
func (p *faultyPersister) GetHeaderByLinkname(ctx context.Context, n string) (*config.Header, error) {
	if p.c.hit("persister", "GetHeaderByLinkname") {
		return nil, errInjected
	}
	return p.MetadataPersister.GetHeaderByLinkname(ctx, n)
}
func (p *faultyPersister) GetHeaderChildren(ctx context.Context, n string) ([]*config.Header, error) {
	if p.c.hit("persister", "GetHeaderChildren") {
		return nil, errInjected
	}
	return p.MetadataPersister.GetHeaderChildren(ctx, n)
}
func (p *faultyPersister) DeleteHeader(ctx context.Context, n string, r, b int64) (*config.Header, error) {
	if p.c.hit("persister", "DeleteHeader") {
		return nil, errInjected
	}
	return p.MetadataPersister.DeleteHeader(ctx, n, r, b)
}
func (p *faultyPersister) GetLastIndexedRecordAndBlock(ctx context.Context, rs int) (int64, int64, error) {
	if p.c.hit("persister", "GetLastIndexedRecordAndBlock") {
		return 0, 0, errInjected
	}
	return p.MetadataPersister.GetLastIndexedRecordAndBlock(ctx, rs)
}

type faultyWriter struct {
	io.Writer
	c *faultCtl
}

func (w *faultyWriter) Write(p []byte) (int, error) {
	if w.c.hit("drivewrite", "") {
		return 0, errInjected
	}
	if w.c.armed && w.c.kind == "trailer" && len(p) == 512 {
		zero := true
		for _, b := range p {
			if b != 0 {
				zero = false
			}
		}
		if zero {
			return 0, errInjected // the archive trailer (a zero block) cannot be written
		}
	}
	return w.Writer.Write(p)
}

type memFile struct {
	*strings.Reader
}

func (memFile) Close() error { return nil }

func TestVerifReplay_OpsFault(t *testing.T) {
	op := os.Getenv("VERIF_OP")
	fault := os.Getenv("VERIF_FAULT")
	if op == "" {
		t.Skip("template: set VERIF_OP and VERIF_FAULT")
	}
	ctl := &faultCtl{seen: map[string]int{}, k: 1}
	switch {
	case strings.HasPrefix(fault, "persister:"):
		ctl.kind = "persister"
		parts := strings.SplitN(strings.TrimPrefix(fault, "persister:"), "#", 2)
		ctl.method = parts[0]
		if len(parts) == 2 {
			ctl.k, _ = strconv.Atoi(parts[1])
		}
	case fault == "trailer":
		ctl.kind = "trailer"
	case strings.HasPrefix(fault, "drivewrite"):
		ctl.kind = "drivewrite"
		if i := strings.Index(fault, "#"); i >= 0 {
			ctl.k, _ = strconv.Atoi(fault[i+1:])
		}
	case strings.HasPrefix(fault, "backend:"):
		ctl.kind = "backend"
		ctl.method = strings.TrimPrefix(fault, "backend:")
	case strings.HasPrefix(fault, "src"):
		ctl.kind = "src"
		if i := strings.Index(fault, "#"); i >= 0 {
			ctl.k, _ = strconv.Atoi(fault[i+1:])
		}
	}
	if ctl.k < 1 {
		ctl.k = 1
	}

	dir := t.TempDir()
	tm := tape.NewTapeManager(filepath.Join(dir, "drive.tar"), nil, 20, false)
	meta := persisters.NewMetadataPersister(filepath.Join(dir, "index.sqlite"))
	if err := meta.Open(); err != nil {
		t.Fatal(err)
	}
	backend := config.BackendConfig{
		GetWriter: func() (config.DriveWriterConfig, error) {
			if ctl.hit("backend", "GetWriter") {
				return config.DriveWriterConfig{}, errInjected
			}
			w, err := tm.GetWriter()
			if err != nil {
				return w, err
			}
			w.Drive = &faultyWriter{w.Drive, ctl}
			return w, nil
		},
		CloseWriter: func() error {
			err := tm.Close()
			if ctl.hit("backend", "CloseWriter") {
				return errInjected
			}
			return err
		},
		GetReader: func() (config.DriveReaderConfig, error) {
			if ctl.hit("backend", "GetReader") {
				return config.DriveReaderConfig{}, errInjected
			}
			return tm.GetReader()
		},
		CloseReader: func() error {
			err := tm.Close()
			if ctl.hit("backend", "CloseReader") {
				return errInjected
			}
			return err
		},
	}
	pipes := config.PipeConfig{RecordSize: 20}
	crypto := config.CryptoConfig{}
	mc := config.MetadataConfig{Metadata: &faultyPersister{meta, ctl}}
	plain := NewOperations(backend, mc, pipes, crypto, func(*config.HeaderEvent) {})

	// scenario: root, /d, /d/f (with content), /g
	if err := plain.Initialize("/", 0o755, config.CompressionLevelFastestKey); err != nil {
		t.Fatal(err)
	}
	now := time.Now()
	entry := func(name string, dirE bool, content string) func() (config.FileConfig, error) {
		done := false
		return func() (config.FileConfig, error) {
			if done {
				return config.FileConfig{}, io.EOF
			}
			done = true
			h := &tar.Header{Typeflag: tar.TypeReg, Name: name, Mode: 0o644, Size: int64(len(content)), ModTime: now}
			if dirE {
				h.Typeflag = tar.TypeDir
				h.Mode = 0o755
			}
			return config.FileConfig{
				GetFile: func() (io.ReadSeekCloser, error) {
					if ctl.hit("src", "") {
						return nil, errInjected
					}
					return memFile{strings.NewReader(content)}, nil
				},
				Info: h.FileInfo(), Path: name,
			}, nil
		}
	}
	for _, e := range []struct {
		n string
		d bool
		c string
	}{{"/d", true, ""}, {"/d/f", false, "content of f"}, {"/g", false, "content of g"}} {
		if _, err := plain.Archive(entry(e.n, e.d, e.c), config.CompressionLevelFastestKey, false, false); err != nil {
			t.Fatalf("setup %s: %v", e.n, err)
		}
	}

	// the operation under test, possibly with broken crypto configuration
	target := plain
	switch fault {
	case "badsign":
		target = NewOperations(backend, mc, config.PipeConfig{RecordSize: 20, Signature: config.SignatureFormatMinisignKey}, config.CryptoConfig{Identity: "not a key"}, func(*config.HeaderEvent) {})
	case "badencrypt":
		target = NewOperations(backend, mc, config.PipeConfig{RecordSize: 20, Encryption: config.EncryptionFormatAgeKey}, config.CryptoConfig{Recipient: "not a key"}, func(*config.HeaderEvent) {})
	}
	ctl.armed = true
	var opErr error
	returned := make(chan struct{})
	go func() {
		defer close(returned)
		switch op {
		case "Delete":
			opErr = target.Delete("/d")
		case "Move":
			opErr = target.Move("/d", "/e")
		case "Update":
			_, opErr = target.Update(entry("/g", false, "new content of g"), config.CompressionLevelFastestKey, true, false)
		case "Archive":
			_, opErr = target.Archive(entry("/h", false, "content of h"), config.CompressionLevelFastestKey, false, false)
		case "Restore":
			opErr = target.Restore(func(string, fs.FileMode) (io.WriteCloser, error) { return nopWC{io.Discard}, nil }, func(string, fs.FileMode) error { return nil }, "/g", "", true)
		default:
			opErr = fmt.Errorf("unknown VERIF_OP %q", op)
		}
	}()
	select {
	case <-returned:
	case <-time.After(10 * time.Second):
		t.Fatalf("HANG: %s with fault %s did not return", op, fault)
	}
	ctl.armed = false
	fmt.Printf("REPLAY-INFO op=%s fault=%s injected=%v returned err=%v\n", op, fault, ctl.seen, opErr)

	// probe: the drive must be free for the next call
	probe := make(chan error, 1)
	go func() {
		_, err := tm.GetWriter()
		if err == nil {
			err = tm.Close()
		}
		probe <- err
	}()
	select {
	case <-probe:
	case <-time.After(2 * time.Second):
		t.Fatalf("DRIVE-NOT-FREE after %s returned %v with fault %s: the next GetWriter blocks (lock leaked)", op, opErr, fault)
	}
}

type nopWC struct{ io.Writer }

func (nopWC) Close() error { return nil }
