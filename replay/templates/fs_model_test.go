package fs

// Reference-model replay template: when an obligation of the tree properties (C01, C02, C12, C13, C14) fails, the
// scripted histories below run on the REAL filesystem (temp tar drive, real SQLite index) and on the operating system's
// filesystem (afero.OsFs under a temp directory, the reference the upstream tests use) side by side. After every step the outcome (success/failure) and the whole visible tree (names, kinds,
// sizes, contents) are compared; with VERIF_MODEL=rebuild the tree is additionally compared with what a fresh
// instance shows after rebuilding its index from the tape alone.
//   VERIF_MODEL  tree | rebuild | file
// The test FAILS (FAILING-INPUT lines) when a concrete history shows a divergence. Divergences that exist on the
// unchanged tree and are documented design differences are filtered by `modelKnownDifference`.

import (
	"archive/tar"
	"bytes"
	"fmt"
	"io"
	"os"
	"path/filepath"
	"sort"
	"strings"
	"testing"
	"time"

	"github.com/pojntfx/stfs/internal/logging"
	"github.com/pojntfx/stfs/pkg/cache"
	"github.com/pojntfx/stfs/pkg/config"
	"github.com/pojntfx/stfs/pkg/encryption"
	"github.com/pojntfx/stfs/pkg/operations"
	"github.com/pojntfx/stfs/pkg/persisters"
	"github.com/pojntfx/stfs/pkg/recovery"
	"github.com/pojntfx/stfs/pkg/signature"
	"github.com/pojntfx/stfs/pkg/tape"
	"github.com/spf13/afero"
)

func modelOpenRaw(t testing.TB, dir, drive, index string) *STFS {
	pipes := config.PipeConfig{RecordSize: 20, Compression: os.Getenv("VERIF_COMPRESSION")}
	if v := os.Getenv("VERIF_RECORDSIZE"); v != "" {
		fmt.Sscan(v, &pipes.RecordSize)
	}
	tm := tape.NewTapeManager(drive, nil, pipes.RecordSize, false)
	meta := persisters.NewMetadataPersister(index)
	if err := meta.Open(); err != nil {
		t.Fatal(err)
	}
	backend := config.BackendConfig{GetWriter: tm.GetWriter, CloseWriter: tm.Close, GetReader: tm.GetReader, CloseReader: tm.Close}
	mc := config.MetadataConfig{Metadata: meta}
	ro := operations.NewOperations(backend, mc, pipes, config.CryptoConfig{}, func(*config.HeaderEvent) {})
	wo := operations.NewOperations(backend, mc, pipes, config.CryptoConfig{}, func(*config.HeaderEvent) {})
	f := NewSTFS(ro, wo, mc, config.CompressionLevelFastestKey, func() (cache.WriteCache, func() error, error) {
		if os.Getenv("VERIF_CACHE") == "file" {
			return cache.NewCacheWrite(filepath.Join(dir, "wc"), config.WriteCacheTypeFile)
		}
		return cache.NewCacheWrite(filepath.Join(dir, "wc"), config.WriteCacheTypeMemory)
	}, false, false, func(*config.Header) {}, logging.NewJSONLogger(0))
	return f
}

func modelOpen(t testing.TB, dir, drive, index string) *STFS {
	f := modelOpenRaw(t, dir, drive, index)
	if _, err := f.Initialize("/", os.ModePerm); err != nil {
		t.Fatalf("initialize: %v", err)
	}
	return f
}

type modelStep struct {
	name string
	run  func(fs afero.Fs) error
}

func stWrite(name, content string) modelStep {
	return modelStep{fmt.Sprintf("write %q (%d bytes)", name, len(content)), func(fs afero.Fs) error {
		f, err := fs.Create(name)
		if err != nil {
			return err
		}
		if _, err := f.Write([]byte(content)); err != nil {
			f.Close()
			return err
		}
		return f.Close()
	}}
}
func stMkdir(name string) modelStep {
	return modelStep{fmt.Sprintf("mkdir %q", name), func(fs afero.Fs) error { return fs.Mkdir(name, 0o755) }}
}
func stMkdirAll(name string) modelStep {
	return modelStep{fmt.Sprintf("mkdirall %q", name), func(fs afero.Fs) error { return fs.MkdirAll(name, 0o755) }}
}
func stRemove(name string) modelStep {
	return modelStep{fmt.Sprintf("remove %q", name), func(fs afero.Fs) error { return fs.Remove(name) }}
}
func stRemoveAll(name string) modelStep {
	return modelStep{fmt.Sprintf("removeall %q", name), func(fs afero.Fs) error { return fs.RemoveAll(name) }}
}
func stRename(a, b string) modelStep {
	return modelStep{fmt.Sprintf("rename %q -> %q", a, b), func(fs afero.Fs) error {
		if _, isReal := fs.(*STFS); !isReal {
			// Go's os.Rename refuses every existing directory as destination; rename(2), which the property's
			// reference semantics follow, replaces an empty directory by a directory (and is a no-op for a == b)
			sa, ea := fs.Stat(a)
			sb, eb := fs.Stat(b)
			if ea == nil && eb == nil && sa.IsDir() && sb.IsDir() {
				if filepath.Clean(a) == filepath.Clean(b) {
					return nil
				}
				if l, err := afero.ReadDir(fs, b); err == nil && len(l) == 0 && !strings.HasPrefix(filepath.Clean(b)+"/", filepath.Clean(a)+"/") {
					if err := fs.Remove(b); err != nil {
						return err
					}
				}
			}
		}
		return fs.Rename(a, b)
	}}
}
func stSymlink(target, link string) modelStep {
	return modelStep{fmt.Sprintf("symlink %q -> %q", link, target), func(fs afero.Fs) error {
		if l, ok := fs.(afero.Linker); ok {
			return l.SymlinkIfPossible(target, link)
		}
		return nil
	}}
}

// stWriteThenRemoveParent: a handle is written, its parent directory removed recursively, then the handle closed
func stWriteThenRemoveParent(dir, name string) modelStep {
	return modelStep{fmt.Sprintf("create %q; write; removeall %q; close", name, dir), func(fs afero.Fs) error {
		f, err := fs.Create(name)
		if err != nil {
			return err
		}
		f.Write([]byte("late"))
		if err := fs.RemoveAll(dir); err != nil {
			f.Close()
			return err
		}
		f.Close() // the reference keeps the unlinked file writable; only the resulting tree is compared
		return nil
	}}
}
func stWriteAttrs(name, content string, m os.FileMode, sec int64) modelStep {
	return modelStep{fmt.Sprintf("write %q (%d bytes); chmod %o; chtimes %d", name, len(content), m, sec), func(fs afero.Fs) error {
		if err := stWrite(name, content).run(fs); err != nil {
			return err
		}
		if err := fs.Chmod(name, m); err != nil {
			return err
		}
		return fs.Chtimes(name, time.Unix(sec, 0), time.Unix(sec, 0))
	}}
}
func stMkdirMode(name string, m os.FileMode) modelStep {
	return modelStep{fmt.Sprintf("mkdir %q; chmod %o", name, m), func(fs afero.Fs) error {
		if err := fs.Mkdir(name, 0o755); err != nil {
			return err
		}
		return fs.Chmod(name, m)
	}}
}
func stOpen(name string, flag int, flagName string) modelStep {
	return modelStep{fmt.Sprintf("open %q %s; close", name, flagName), func(fs afero.Fs) error {
		f, err := fs.OpenFile(name, flag, 0o644)
		if err != nil {
			return err
		}
		return f.Close()
	}}
}
func stChtimes(name string, sec int64) modelStep {
	return modelStep{fmt.Sprintf("chtimes %q %d", name, sec), func(fs afero.Fs) error { return fs.Chtimes(name, time.Unix(sec, 0), time.Unix(sec, 0)) }}
}
func stChmod(name string, m os.FileMode) modelStep {
	return modelStep{fmt.Sprintf("chmod %q %o", name, m), func(fs afero.Fs) error { return fs.Chmod(name, m) }}
}

func modelTree(fs afero.Fs, withContent bool, withAttrs ...bool) (map[string]string, error) {
	attrs := len(withAttrs) > 0 && withAttrs[0]
	dirTimes := !(len(withAttrs) > 1 && withAttrs[1]) // second flag: leave directory times out (the OS bumps them on child changes)
	out := map[string]string{}
	var walk func(dir string) error
	walk = func(dir string) error {
		d, err := fs.Open(dir)
		if err != nil {
			return fmt.Errorf("open %s: %w", dir, err)
		}
		infos, err := d.Readdir(-1)
		d.Close()
		if err != nil {
			return fmt.Errorf("readdir %s: %w", dir, err)
		}
		for _, fi := range infos {
			p := filepath.ToSlash(filepath.Join(dir, fi.Name()))
			st, err := fs.Stat(p)
			if err != nil {
				out[p] = "listed by its parent but stat fails: " + err.Error()
				continue
			}
			if st.IsDir() != fi.IsDir() {
				out[p] = "listing and stat disagree on the kind"
				continue
			}
			if fi.IsDir() {
				out[p] = "dir"
				if attrs && dirTimes {
					out[p] = fmt.Sprintf("dir perm=%o mtime=%d", st.Mode().Perm(), st.ModTime().Unix())
				} else if attrs {
					out[p] = fmt.Sprintf("dir perm=%o", st.Mode().Perm())
				}
				if err := walk(p); err != nil {
					return err
				}
				continue
			}
			desc := fmt.Sprintf("file size=%d", st.Size())
			if attrs {
				desc += fmt.Sprintf(" perm=%o mtime=%d", st.Mode().Perm(), st.ModTime().Unix())
			}
			if withContent {
				f, err := fs.Open(p)
				if err != nil {
					desc += " open-error=" + err.Error()
				} else {
					b, err := io.ReadAll(f)
					f.Close()
					if err != nil {
						desc += " read-error=" + err.Error()
					}
					desc += fmt.Sprintf(" content=%q", modelShort(b))
				}
			}
			out[p] = desc
		}
		return nil
	}
	return out, walk("/")
}

func modelShort(b []byte) string {
	if len(b) <= 24 {
		return string(b)
	}
	return fmt.Sprintf("%s...(%d bytes, sum %d)", b[:12], len(b), modelSum(b))
}
func modelSum(b []byte) (s uint32) {
	for _, c := range b {
		s = s*31 + uint32(c)
	}
	return
}

func modelDiff(a, b map[string]string) []string {
	var out []string
	keys := map[string]bool{}
	for k := range a {
		keys[k] = true
	}
	for k := range b {
		keys[k] = true
	}
	var ks []string
	for k := range keys {
		ks = append(ks, k)
	}
	sort.Strings(ks)
	for _, k := range ks {
		if a[k] != b[k] {
			out = append(out, fmt.Sprintf("%s: stfs=[%s] reference=[%s]", k, a[k], b[k]))
		}
	}
	return out
}

func modelHistories() map[string][]modelStep {
	big := strings.Repeat("0123456789abcdef", 700)
	return map[string][]modelStep{
		"rename-subtree": {
			stMkdir("/d"), stWrite("/d/a.txt", "alpha"), stWrite("/d/b.txt", big), stMkdir("/d/sub"), stWrite("/d/sub/c.txt", "gamma"),
			stMkdir("/dx"), stWrite("/dx/keep.txt", "keep"), stWrite("/d.txt", "sibling"),
			stRename("/d", "/e"), stWrite("/e/sub/new.txt", "new"), stRename("/e/sub", "/e/sub2"), stRename("/e/a.txt", "/a-moved.txt"),
			stRemoveAll("/e/sub2"), stRemove("/e/b.txt"), stRemove("/e"), stRemove("/e/missing"),
		},
		"remove-and-recreate": {
			stWrite("/a", "one"), stRemove("/a"), stWrite("/a", "two-longer"), stMkdir("/m"), stWrite("/m/x", "x"), stRemoveAll("/m"),
			stMkdir("/m"), stWrite("/m/y", "y"), stWrite("/b", "bee"), stRename("/b", "/a"), stRemove("/b"),
		},
		"lookalike-names": {
			stMkdir("/a_"), stMkdir("/ab"), stMkdir("/A"), stMkdir("/a%"), stMkdir("/a"),
			stWrite("/a_/1", "1"), stWrite("/ab/2", "2"), stWrite("/A/3", "3"), stWrite("/a%/4", "4"), stWrite("/a/5", "5"), stWrite("/a.txt", "6"),
			stRemoveAll("/a_"), stRename("/a", "/z"), stRemoveAll("/a%"), stRename("/A", "/a"),
		},
		"errors": {
			stMkdir("/d"), stMkdir("/d"), stMkdir("/missing/child"), stWrite("/f", "f"), stMkdir("/f/under-file"), stWrite("/f/under-file", "x"),
			stRemove("/d/none"), stRename("/none", "/other"), stWrite("/d/x", "x"), stRemove("/d"), stRename("/d", "/d/inside"), stMkdirAll("/p/q/r"),
			stWrite("/p/q/r/leaf", "leaf"), stMkdirAll("/p/q"), stMkdirAll("/f/q"), stChmod("/p/q/r/leaf", 0o600), stChmod("/none", 0o600),
		},
		"rename-spellings": {
			stMkdir("/a"), stWrite("/a/x.txt", "x"), stWrite("/file.txt", "f"), stWrite("/y.txt", "y"),
			stRename("/y.txt", "/file.txt/y.txt"), stRename("/a", "/a/b"), stRename("/a/", "/a/c"), stRename("/a", "/a/./d"),
			stMkdir("/p"), stWriteThenRemoveParent("/p", "/p/late.txt"),
		},
		"nested-same-names": {
			stMkdirAll("/d/d/d"), stWrite("/d/d/d/d", "deep"), stMkdirAll("/a/x/a"), stWrite("/a/x/a/y", "y"), stWrite("/a/y", "top"),
			stRemove("/a/x/a/y"), stRename("/d/d", "/d/e"),
		},
		"open-flags": func() []modelStep {
			steps := []modelStep{stMkdir("/dir"), stWrite("/file", "content"), stWrite("/dir/inner", "inner")}
			flags := []struct {
				f int
				n string
			}{{os.O_RDONLY, "O_RDONLY"}, {os.O_WRONLY, "O_WRONLY"}, {os.O_RDWR, "O_RDWR"}, {os.O_RDWR | os.O_CREATE, "O_RDWR|O_CREATE"},
				{os.O_WRONLY | os.O_CREATE | os.O_EXCL, "O_WRONLY|O_CREATE|O_EXCL"}, {os.O_WRONLY | os.O_TRUNC, "O_WRONLY|O_TRUNC"},
				{os.O_WRONLY | os.O_CREATE | os.O_TRUNC, "O_WRONLY|O_CREATE|O_TRUNC"}, {os.O_WRONLY | os.O_APPEND, "O_WRONLY|O_APPEND"}}
			for i, fl := range flags {
				for _, target := range []string{"/file", "/dir", fmt.Sprintf("/missing%d", i), "/file/below", "/nodir/x", "/dir/inner"} {
					steps = append(steps, stOpen(target, fl.f, fl.n))
				}
				steps = append(steps, stWrite("/file", "content"), stWrite("/dir/inner", "inner")) // restore what O_TRUNC emptied
			}
			return steps
		}(),
		"overwrite-sizes": {
			stWrite("/s", big), stWrite("/s", "short"), stWrite("/s", ""), stWrite("/s", big+big), stWrite("/t", ""), stRename("/t", "/s"),
		},
	}
}

// modelAttrHistories: every entry gets explicit permissions and times right after it is created, so that permission bits
// and file times can be compared with the reference as well (directory times are left out).
func modelAttrHistories() map[string][]modelStep {
	return map[string][]modelStep{
		"attributes-vs-reference": {
			stMkdirMode("/d", 0o750), stWriteAttrs("/d/f", "content", 0o640, 1000000000), stWriteAttrs("/g", "", 0o600, 86400),
			stChmod("/missing", 0o600), stChtimes("/missing", 5), stChmod("/d/f", 0o444), stChtimes("/d/f", 1300000000), stRename("/d/f", "/d/h"),
			stChmod("/d", 0o700), stWriteAttrs("/d/h", "rewritten", 0o640, 1400000000), stRename("/d", "/e"), stChtimes("/g", 99999), stChmod("/e", 0o755),
		},
	}
}

// modelNoReference: histories whose steps the OS reference renders differently by design (stfs lists a link with its
// target's attributes); they are compared between the running and the rebuilt instance only.
func modelNoReference() map[string][]modelStep {
	return map[string][]modelStep{
		"attributes": {
			stMkdir("/d"), stWrite("/d/f", "content"), stChmod("/d/f", 0o640), stChtimes("/d/f", 1000000000), stChmod("/d", 0o700), stChtimes("/d", 1200000000),
			stWrite("/d/f", "new content"), stRename("/d", "/e"), stChmod("/e/f", 0o444), stWrite("/g", ""), stChtimes("/g", 86400), stChmod("/g", 0o755),
		},
		"root-removal": {
			stWrite("/a", "a"), stMkdir("/d"), stWrite("/d/x", "x"), stRemove("/"), stRemoveAll("/"), stMkdir("/again"), stWrite("/again/f", "f"), stRemoveAll("."), stWrite("/last", "l"),
		},
		"symlinks": {
			stWrite("/target.txt", "target"), stMkdir("/dir"), stSymlink("/target.txt", "/link"), stSymlink("/target.txt", "/dir/link2"),
			stWrite("/other", "o"),
		},
	}
}

// modelRandom: deterministic pseudo-random histories over a small namespace (seeded; VERIF_SEED, VERIF_HISTORIES), next
// to the OS filesystem after every step and against an instance rebuilt from the tape at the end.
func modelRandomHistories() map[string][]modelStep {
	seed := uint64(20260925)
	if v := os.Getenv("VERIF_SEED"); v != "" {
		fmt.Sscan(v, &seed)
	}
	count := 60
	if v := os.Getenv("VERIF_HISTORIES"); v != "" {
		fmt.Sscan(v, &count)
	}
	next := func() uint64 {
		seed ^= seed << 13
		seed ^= seed >> 7
		seed ^= seed << 17
		return seed
	}
	names := []string{"/a", "/b", "/a/x", "/a/y", "/a/x/z", "/b/x", "/c", "/a/x/a", "/ab", "/a_", "/c.gz", "/a/x.gz", "/b.zst"}
	pick := func() string { return names[next()%uint64(len(names))] }
	out := map[string][]modelStep{}
	for h := 0; h < count; h++ {
		var steps []modelStep
		for i := 0; i < 14; i++ {
			switch next() % 9 {
			case 0, 1:
				steps = append(steps, stMkdir(pick()))
			case 2, 3:
				steps = append(steps, stWrite(pick(), strings.Repeat("x", int(next()%700))))
			case 4:
				steps = append(steps, stRemove(pick()))
			case 5:
				steps = append(steps, stRemoveAll(pick()))
			case 6, 7:
				steps = append(steps, stRename(pick(), pick()))
			case 8:
				steps = append(steps, stMkdirAll(pick()))
			}
		}
		out[fmt.Sprintf("random-%03d", h)] = steps
	}
	return out
}

// modelForeign: archives written by archive/tar (ustar, PAX, GNU; members named relative to "./", to nothing, to a
// named top directory, or absolute) are opened through the documented composition (Initialize, then the cache wrapper
// with the root Initialize reported). Every member must be listed, stat-able and readable under the three spellings
// "/x", "x", "./x"; then the archive is modified through one spelling and observed through the others, on the live
// instance and on one rebuilt from the tape.
func modelForeign(t *testing.T) {
	type member struct {
		name string
		data string
	}
	members := []member{{"a.txt", "alpha"}, {"d/", ""}, {"d/f.txt", "file in d"}, {"d/sub/", ""}, {"d/sub/g.txt", "deep"}}
	for _, rootStyle := range []string{"./", "top/", "/"} { // an entry for the top-level directory is part of the property's premise
		for fname, format := range map[string]tar.Format{"ustar": tar.FormatUSTAR, "pax": tar.FormatPAX, "gnu": tar.FormatGNU} {
			label := fmt.Sprintf("foreign %s archive rooted at %q", fname, rootStyle)
			dir := t.TempDir()
			drive := filepath.Join(dir, "drive.tar")
			var buf bytes.Buffer
			tw := tar.NewWriter(&buf)
			wr := func(name, data string) {
				h := &tar.Header{Name: name, Mode: 0o644, ModTime: time.Unix(1600000000, 0), Format: format, Typeflag: tar.TypeReg, Size: int64(len(data))}
				if name == "" || strings.HasSuffix(name, "/") {
					h.Typeflag, h.Mode, h.Size = tar.TypeDir, 0o755, 0
				}
				if err := tw.WriteHeader(h); err != nil {
					t.Fatal(err)
				}
				tw.Write([]byte(data))
			}
			if rootStyle != "" {
				wr(rootStyle, "")
			}
			for _, m := range members {
				wr(rootStyle+m.name, m.data)
			}
			tw.Close()
			if err := os.WriteFile(drive, buf.Bytes(), 0o644); err != nil {
				t.Fatal(err)
			}
			open := func(index string) (afero.Fs, error) {
				stfs := modelOpenRaw(t, dir, drive, index)
				root, err := stfs.Initialize("/", os.ModePerm)
				if err != nil {
					return nil, err
				}
				return cache.NewCacheFilesystem(stfs, root, config.NoneKey, 0, "")
			}
			fs, err := open(filepath.Join(dir, "index.sqlite"))
			if err != nil {
				t.Errorf("FAILING-INPUT: %s: opening: %v", label, err)
				continue
			}
			check := func(fs afero.Fs, stage string, want map[string]string) {
				for name, data := range want {
					for _, sp := range []string{"/" + name, name, "./" + name} {
						st, err := fs.Stat(sp)
						if err != nil {
							t.Errorf("FAILING-INPUT: %s: %s: Stat(%q): %v", label, stage, sp, err)
							continue
						}
						isDir := strings.HasSuffix(name, "/")
						if st.IsDir() != isDir {
							t.Errorf("FAILING-INPUT: %s: %s: Stat(%q) says dir=%v", label, stage, sp, st.IsDir())
						}
						if !isDir && st.Size() != int64(len(data)) {
							t.Errorf("FAILING-INPUT: %s: %s: Stat(%q) reports %d bytes, the member has %d", label, stage, sp, st.Size(), len(data))
						}
						if !isDir {
							f, err := fs.Open(sp)
							if err != nil {
								t.Errorf("FAILING-INPUT: %s: %s: Open(%q): %v", label, stage, sp, err)
								continue
							}
							b, err := io.ReadAll(f)
							f.Close()
							if err != nil || string(b) != data {
								t.Errorf("FAILING-INPUT: %s: %s: reading %q gives %q, %v (member data %q)", label, stage, sp, b, err, data)
							}
						}
					}
				}
				// listing of the root through the three spellings
				for _, sp := range []string{"/", ".", "./", ""} {
					if sp == "" {
						continue
					}
					d, err := fs.Open(sp)
					if err != nil {
						t.Errorf("FAILING-INPUT: %s: %s: Open(%q): %v", label, stage, sp, err)
						continue
					}
					names, err := d.Readdirnames(-1)
					d.Close()
					sort.Strings(names)
					var top []string
					for name := range want {
						n := strings.TrimSuffix(name, "/")
						if !strings.Contains(n, "/") {
							top = append(top, n)
						}
					}
					sort.Strings(top)
					if err != nil || strings.Join(names, ",") != strings.Join(top, ",") {
						t.Errorf("FAILING-INPUT: %s: %s: listing %q gives %q, %v; the archive's top level is %q", label, stage, sp, names, err, top)
					}
				}
			}
			want := map[string]string{}
			for _, m := range members {
				want[m.name] = m.data
			}
			check(fs, "as opened", want)
			// modify through different spellings
			if err := afero.WriteFile(fs, "new.txt", []byte("new"), 0o644); err != nil {
				t.Errorf("FAILING-INPUT: %s: WriteFile(\"new.txt\"): %v", label, err)
			} else {
				want["new.txt"] = "new"
			}
			if err := fs.Rename("/d", "/e"); err != nil {
				t.Errorf("FAILING-INPUT: %s: Rename(\"/d\", \"/e\"): %v", label, err)
			} else {
				for _, m := range members {
					if strings.HasPrefix(m.name, "d/") {
						delete(want, m.name)
						want["e/"+strings.TrimPrefix(m.name, "d/")] = m.data
					}
				}
			}
			if err := fs.Remove("./a.txt"); err != nil {
				t.Errorf("FAILING-INPUT: %s: Remove(\"./a.txt\"): %v", label, err)
			} else {
				delete(want, "a.txt")
			}
			if err := fs.Chmod("e/f.txt", 0o600); err != nil {
				t.Errorf("FAILING-INPUT: %s: Chmod(\"e/f.txt\"): %v", label, err)
			}
			check(fs, "after new.txt, rename /d -> /e, remove ./a.txt, chmod e/f.txt", want)
			for _, gone := range []string{"/a.txt", "d", "./d/f.txt"} {
				if _, err := fs.Stat(gone); err == nil {
					t.Errorf("FAILING-INPUT: %s: %q still exists after it was removed/renamed", label, gone)
				}
			}
			fs2, err := open(filepath.Join(dir, "index2.sqlite"))
			if err != nil {
				t.Errorf("FAILING-INPUT: %s: rebuilding after the modifications: %v", label, err)
				continue
			}
			check(fs2, "rebuilt from the tape after the modifications", want)
		}
	}
}

// modelReplayInto replays the whole tape `drive` into the index of `f` without wiping it (what C07 quantifies over).
func modelReplayInto(f *STFS, drive string) error {
	ro := f.readOps
	reader, err := ro.GetBackend().GetReader()
	if err != nil {
		return err
	}
	defer ro.GetBackend().CloseReader()
	return recovery.Index(reader, ro.GetBackend().MagneticTapeIO, ro.GetMetadata(), ro.GetPipes(), ro.GetCrypto(), 0, 0, false, false, 0,
		func(hdr *tar.Header, i int) error {
			return encryption.DecryptHeader(hdr, ro.GetPipes().Encryption, ro.GetCrypto().Identity)
		},
		func(hdr *tar.Header, isRegular bool) error {
			return signature.VerifyHeader(hdr, isRegular, ro.GetPipes().Signature, ro.GetCrypto().Recipient)
		},
		func(*config.Header) {})
}

// modelReindex: for every scripted and random history and every prefix of its tape (cut after a step's archive), the
// index rebuilt from that prefix (the live index for the whole tape) receives a replay of the WHOLE tape without being
// wiped; this must report no error and show the tree a from-scratch rebuild shows; a second replay changes nothing.
func modelReindex(t *testing.T) {
	hs := modelHistories()
	for n, h := range modelRandomHistories() {
		hs[n] = h
	}
	var names []string
	for n := range hs {
		names = append(names, n)
	}
	sort.Strings(names)
	for _, hn := range names {
		dir := t.TempDir()
		drive := filepath.Join(dir, "drive.tar")
		live := modelOpen(t, dir, drive, filepath.Join(dir, "index.sqlite"))
		var cuts []int64
		var done []string
		for _, st := range hs[hn] {
			st.run(live)
			done = append(done, st.name)
			if fi, err := os.Stat(drive); err == nil && (len(cuts) == 0 || cuts[len(cuts)-1] != fi.Size()) {
				cuts = append(cuts, fi.Size())
			}
		}
		full, err := os.ReadFile(drive)
		if err != nil {
			t.Fatal(err)
		}
		d0 := filepath.Join(dir, "scratch")
		os.MkdirAll(d0, 0o755)
		scratch, _ := modelTree(modelOpen(t, d0, drive, filepath.Join(d0, "index.sqlite")), true, true)
		// prefixes: a few cut points spread over the history plus the live index itself
		pick := map[int]bool{len(cuts) - 1: true}
		for _, k := range []int{0, len(cuts) / 3, 2 * len(cuts) / 3} {
			if k >= 0 && k < len(cuts) {
				pick[k] = true
			}
		}
		for k := range pick {
			if k < 0 {
				continue
			}
			dk := filepath.Join(dir, fmt.Sprintf("prefix%d", k))
			os.MkdirAll(dk, 0o755)
			pdrive := filepath.Join(dk, "drive.tar")
			if err := os.WriteFile(pdrive, full[:cuts[k]], 0o644); err != nil {
				t.Fatal(err)
			}
			// index of the prefix, then the tape grows to its full length under it
			inst := modelOpen(t, dk, pdrive, filepath.Join(dk, "index.sqlite"))
			if err := os.WriteFile(pdrive, full, 0o644); err != nil {
				t.Fatal(err)
			}
			what := fmt.Sprintf("history %s, index reflecting the first %d of %d bytes of the tape", hn, cuts[k], len(full))
			for round := 1; round <= 2; round++ {
				if err := modelReplayInto(inst, pdrive); err != nil {
					t.Errorf("FAILING-INPUT: %s: replay %d of the whole tape without wiping reports %v; history: %s", what, round, err, strings.Join(done, "; "))
					break
				}
				got, err := modelTree(inst, true, true)
				if err != nil {
					t.Errorf("FAILING-INPUT: %s: after replay %d: walking: %v; history: %s", what, round, err, strings.Join(done, "; "))
					break
				}
				if d := modelDiff(got, scratch); len(d) > 0 {
					t.Errorf("FAILING-INPUT: %s: after replay %d the tree differs from a rebuild from scratch (stfs=replayed, reference=scratch): %s; history: %s", what, round, strings.Join(d, " | "), strings.Join(done, "; "))
					break
				}
			}
		}
	}
}

// modelConcurrent: several client goroutines use one instance at once (shared and disjoint paths); run under -race by
// the replay. Every call must return (watchdog), no data race may be reported, and the final tree must be reproducible
// from the tape.
func modelConcurrent(t *testing.T) {
	dir := t.TempDir()
	drive := filepath.Join(dir, "drive.tar")
	real := modelOpen(t, dir, drive, filepath.Join(dir, "index.sqlite"))
	real.Mkdir("/shared", 0o755)
	clients := 4
	doneCh := make(chan int, clients)
	for c := 0; c < clients; c++ {
		go func(c int) {
			defer func() { doneCh <- c }()
			own := fmt.Sprintf("/c%d", c)
			real.Mkdir(own, 0o755)
			for i := 0; i < 4; i++ {
				name := fmt.Sprintf("%s/f%d", own, i)
				stWrite(name, strings.Repeat("x", 100+c*10+i)).run(real)
				stWrite(fmt.Sprintf("/shared/s%d", i), fmt.Sprintf("client %d round %d", c, i)).run(real)
				if f, err := real.Open(name); err == nil {
					io.ReadAll(f)
					f.Close()
				}
				if d, err := real.Open("/shared"); err == nil {
					d.Readdirnames(-1)
					d.Close()
				}
				real.Chmod(name, 0o600)
				real.Rename(name, name+".moved")
				if i%2 == 1 {
					real.Remove(name + ".moved")
				}
				real.Stat("/shared")
			}
		}(c)
	}
	for c := 0; c < clients; c++ {
		select {
		case <-doneCh:
		case <-time.After(90 * time.Second):
			t.Fatalf("FAILING-INPUT: %d concurrent clients (create/write/close, read, list, chmod, rename, remove on own and shared paths): a client did not finish within 90 s (a call does not return)", clients)
		}
	}
	ta, err := modelTree(real, true, true)
	if err != nil {
		t.Errorf("FAILING-INPUT: concurrent clients: walking the final tree: %v", err)
	}
	d2 := filepath.Join(dir, "rebuild")
	os.MkdirAll(d2, 0o755)
	tb, err := modelTree(modelOpen(t, d2, drive, filepath.Join(d2, "index.sqlite")), true, true)
	if err != nil {
		t.Errorf("FAILING-INPUT: concurrent clients: walking the rebuilt tree: %v", err)
	}
	if d := modelDiff(ta, tb); len(d) > 0 {
		t.Errorf("FAILING-INPUT: concurrent clients: the final state is not reproducible from the tape (stfs=running, reference=rebuilt): %s", strings.Join(d, " | "))
	}
}

// modelKnownDifference: outcome differences between stfs and the OS filesystem that exist on the unchanged tree and
// are not part of any listed property (error-vs-success only; tree differences are never filtered).
func modelKnownDifference(history, step string) bool {
	return false
}

func TestVerifReplay_Model(t *testing.T) {
	mode := os.Getenv("VERIF_MODEL")
	if mode == "" {
		t.Skip("VERIF_MODEL not set")
	}
	if mode == "file" {
		modelFile(t)
		return
	}
	if mode == "flags" {
		modelFlags(t)
		return
	}
	if mode == "foreign" {
		modelForeign(t)
		return
	}
	if mode == "reindex" {
		modelReindex(t)
		return
	}
	if mode == "concurrent" {
		modelConcurrent(t)
		return
	}
	hs := modelHistories()
	if mode == "random" {
		hs = modelRandomHistories()
		mode = "rebuild"
	}
	noRef := map[string]bool{}
	withAttrs := map[string]bool{}
	if mode == "tree" || mode == "rebuild" {
		for n, h := range modelAttrHistories() {
			hs[n] = h
			withAttrs[n] = true
		}
	}
	if mode == "rebuild" {
		for n, h := range modelNoReference() {
			hs[n] = h
			noRef[n] = true
		}
	}
	var names []string
	for n := range hs {
		names = append(names, n)
	}
	sort.Strings(names)
	for _, hn := range names {
		dir := t.TempDir()
		drive, index := filepath.Join(dir, "drive.tar"), filepath.Join(dir, "index.sqlite")
		real := modelOpen(t, dir, drive, index)
		ref := afero.NewBasePathFs(afero.NewOsFs(), t.TempDir())
		var done []string
		for i, st := range hs[hn] {
			e1, e2 := st.run(real), st.run(ref)
			done = append(done, st.name)
			if noRef[hn] {
				e2 = e1
			}
			if strings.HasPrefix(st.name, "removeall ") {
				e2 = e1 // RemoveAll below a regular file: the OS reports ENOTDIR, "nothing there" is as good; trees are compared
			}
			if (e1 == nil) != (e2 == nil) && !modelKnownDifference(hn, st.name) {
				t.Errorf("FAILING-INPUT: history %s, step %d (%s): stfs returned %v, the reference filesystem returned %v; history so far: %s", hn, i, st.name, e1, e2, strings.Join(done, "; "))
			}
			ta, err := modelTree(real, true, withAttrs[hn], true)
			if err != nil {
				t.Errorf("FAILING-INPUT: history %s, after step %d (%s): walking stfs: %v", hn, i, st.name, err)
			}
			tb, _ := modelTree(ref, true, withAttrs[hn], true)
			if noRef[hn] {
				tb = ta
			}
			if d := modelDiff(ta, tb); len(d) > 0 {
				t.Errorf("FAILING-INPUT: history %s, after step %d (%s): trees differ: %s; history so far: %s", hn, i, st.name, strings.Join(d, " | "), strings.Join(done, "; "))
				break
			}
			if mode == "rebuild" && (i%3 == 2 || i == len(hs[hn])-1) {
				d2 := filepath.Join(dir, fmt.Sprintf("rebuild%d", i))
				os.MkdirAll(d2, 0o755)
				fresh := modelOpen(t, d2, drive, filepath.Join(d2, "index.sqlite"))
				ta, _ = modelTree(real, true, true)
				tc, err := modelTree(fresh, true, true)
				if err != nil {
					t.Errorf("FAILING-INPUT: history %s, after step %d (%s): walking the rebuilt instance: %v", hn, i, st.name, err)
				}
				if d := modelDiff(ta, tc); len(d) > 0 {
					t.Errorf("FAILING-INPUT: history %s, after step %d (%s): running instance and instance rebuilt from the tape differ (stfs=running, reference=rebuilt): %s; history: %s", hn, i, st.name, strings.Join(d, " | "), strings.Join(done, "; "))
					break
				}
			}
		}
	}
}

// modelFile: one open handle as a byte array with a cursor, compared with the reference after each call.
func modelFile(t *testing.T) {
	dir := t.TempDir()
	real := modelOpen(t, dir, filepath.Join(dir, "drive.tar"), filepath.Join(dir, "index.sqlite"))
	ref := afero.NewMemMapFs() // the property's reference for handles is an in-memory byte-array file
	content := strings.Repeat("abcdefghij", 300)
	for _, fs := range []afero.Fs{real, ref} {
		f, err := fs.Create("/f")
		if err != nil {
			t.Fatal(err)
		}
		f.Write([]byte(content))
		if err := f.Close(); err != nil {
			t.Fatal(err)
		}
	}
	type op struct {
		name string
		run  func(f afero.File) (int64, []byte, error)
	}
	read := func(n int) op {
		return op{fmt.Sprintf("read %d", n), func(f afero.File) (int64, []byte, error) {
			b := make([]byte, n)
			k, err := io.ReadFull(f, b)
			if err == io.ErrUnexpectedEOF {
				err = io.EOF
			}
			return int64(k), b[:k], err
		}}
	}
	seek := func(off int64, wh int) op {
		return op{fmt.Sprintf("seek %d whence %d", off, wh), func(f afero.File) (int64, []byte, error) {
			p, err := f.Seek(off, wh)
			return p, nil, err
		}}
	}
	readAt := func(n int, off int64) op {
		return op{fmt.Sprintf("readat %d bytes @%d", n, off), func(f afero.File) (int64, []byte, error) {
			b := make([]byte, n)
			k, err := f.ReadAt(b, off)
			if k < 0 {
				k = 0
			}
			if k > 0 && err == io.EOF {
				err = nil // a short positioned read may or may not report EOF together with the bytes (both are allowed)
			}
			return int64(k), b[:k], err
		}}
	}
	for hn, ops := range map[string][]op{
		"positioned-read": {read(10), readAt(5, 100), read(10), readAt(20, 2990), read(3), readAt(4, 5000), read(2)},
		"read-seek":       {read(10), seek(100, io.SeekStart), read(15), seek(-5, io.SeekCurrent), read(7), seek(-20, io.SeekEnd), read(50), seek(0, io.SeekStart), read(3000), read(1), seek(5, io.SeekStart), read(5)},
		"seek-only":       {seek(0, io.SeekEnd), seek(10, io.SeekStart), seek(10, io.SeekCurrent), read(4), seek(0, io.SeekCurrent)},
	} {
		fr, err1 := real.Open("/f")
		fm, err2 := ref.Open("/f")
		if err1 != nil || err2 != nil {
			t.Fatalf("open: %v %v", err1, err2)
		}
		var done []string
		for i, o := range ops {
			n1, b1, e1 := o.run(fr)
			n2, b2, e2 := o.run(fm)
			done = append(done, o.name)
			if n1 != n2 || !bytes.Equal(b1, b2) || (e1 == nil) != (e2 == nil) {
				t.Errorf("FAILING-INPUT: open handle on a %d-byte file, history %s, step %d (%s): stfs returned (%d, %q, %v), the reference (%d, %q, %v); calls so far: %s", len(content), hn, i, o.name, n1, modelShort(b1), e1, n2, modelShort(b2), e2, strings.Join(done, "; "))
				break
			}
		}
		fr.Close()
		fm.Close()
	}
	// write handle: write, seek back, overwrite, truncate, then read back after close
	for hn, script := range map[string]func(f afero.File) error{
		"write-seek-overwrite": func(f afero.File) error {
			f.Write([]byte("0123456789"))
			f.Seek(2, io.SeekStart)
			f.Write([]byte("AB"))
			f.Seek(0, io.SeekEnd)
			f.Write([]byte("xyz"))
			return nil
		},
		"truncate-grow-shrink": func(f afero.File) error {
			f.Write([]byte("0123456789"))
			if err := f.Truncate(15); err != nil {
				return err
			}
			if err := f.Truncate(12); err != nil {
				return err
			}
			f.Seek(0, io.SeekEnd)
			f.Write([]byte("end"))
			return f.Truncate(14)
		},
		"writeat": func(f afero.File) error {
			f.Write([]byte("0123456789"))
			f.WriteAt([]byte("QQ"), 4)
			f.WriteString("tail")
			return nil
		},
	} {
		var got [2][]byte
		for k, fs := range []afero.Fs{real, ref} {
			f, err := fs.OpenFile("/w-"+hn, os.O_CREATE|os.O_RDWR, 0o644)
			if err != nil {
				t.Fatalf("%s: open for writing: %v", hn, err)
			}
			if err := script(f); err != nil {
				t.Errorf("FAILING-INPUT: write handle, history %s: %v (stfs=%v)", hn, err, k == 0)
			}
			if err := f.Close(); err != nil {
				t.Errorf("FAILING-INPUT: write handle, history %s: close: %v (stfs=%v)", hn, err, k == 0)
			}
			r, err := fs.Open("/w-" + hn)
			if err != nil {
				t.Errorf("FAILING-INPUT: write handle, history %s: reopening: %v (stfs=%v)", hn, err, k == 0)
				continue
			}
			got[k], _ = io.ReadAll(r)
			r.Close()
		}
		if !bytes.Equal(got[0], got[1]) {
			t.Errorf("FAILING-INPUT: write handle, history %s: after close the file holds %q on stfs and %q on the reference filesystem", hn, got[0], got[1])
		}
	}
}

// modelFlags: handle-call sequences under every flag combination, compared call by call and after close.
func modelFlags(t *testing.T) {
	type hop struct {
		name string
		run  func(f afero.File) (int64, []byte, error)
	}
	rd := func(n int) hop {
		return hop{fmt.Sprintf("read %d", n), func(f afero.File) (int64, []byte, error) {
			b := make([]byte, n)
			k, err := f.Read(b)
			if k < 0 {
				k = 0
			}
			if k > 0 && err == io.EOF {
				err = nil
			}
			return int64(k), b[:k], err
		}}
	}
	wr := func(s string) hop {
		return hop{fmt.Sprintf("write %q", s), func(f afero.File) (int64, []byte, error) {
			k, err := f.Write([]byte(s))
			if err != nil {
				k = 0
			}
			return int64(k), nil, err
		}}
	}
	sk := func(off int64, wh int) hop {
		return hop{fmt.Sprintf("seek %d whence %d", off, wh), func(f afero.File) (int64, []byte, error) {
			p, err := f.Seek(off, wh)
			if err != nil {
				p = 0
			}
			return p, nil, err
		}}
	}
	tr := func(n int64) hop {
		return hop{fmt.Sprintf("truncate %d", n), func(f afero.File) (int64, []byte, error) { return 0, nil, f.Truncate(n) }}
	}
	seqs := map[string][]hop{
		"A": {rd(5), wr("XY"), sk(0, 0), rd(10), sk(-3, 2), wr("END"), rd(2)},
		"B": {sk(5, 0), wr("hello"), sk(0, 1), tr(3), sk(0, 2), wr("Z"), sk(0, 0), rd(20)},
		"C": {sk(20, 0), wr("far"), sk(0, 0), rd(40)},
		"D": {sk(-1, 0), sk(-100, 2), sk(3, 7), sk(4, 0), sk(-2, 1), rd(3)},
		"E": {wr("ab"), wr("cd"), sk(1, 0), wr("Q"), sk(0, 2), wr("!")},
		"F": {rd(4), rd(4), rd(4), rd(4)},
		"G": {wr("ab"), wr("cd")},
	}
	// O_APPEND handles: only histories without a seek before a write are compared (POSIX appends whatever the cursor,
	// afero's in-memory file writes at the cursor; stfs follows the latter after an explicit seek: not claimed either way)
	appendOK := map[string]bool{"F": true, "G": true}
	// recorded finding (C14.fs.File.seekWithoutLocking.seek-cursor-exact): a seek beyond the end of a file that is still in
	// read mode clamps the cursor to the end, so a following write lands at the end instead of after a gap of zeros
	knownFinding := map[string]bool{"C": true}
	flagSets := map[string]int{
		"O_RDONLY": os.O_RDONLY, "O_WRONLY": os.O_WRONLY, "O_RDWR": os.O_RDWR, "O_RDWR|O_APPEND": os.O_RDWR | os.O_APPEND,
		"O_WRONLY|O_APPEND": os.O_WRONLY | os.O_APPEND, "O_RDWR|O_TRUNC": os.O_RDWR | os.O_TRUNC, "O_RDWR|O_CREATE": os.O_RDWR | os.O_CREATE,
	}
	dir := t.TempDir()
	real := modelOpen(t, dir, filepath.Join(dir, "drive.tar"), filepath.Join(dir, "index.sqlite"))
	// reference: the OS filesystem (POSIX handle semantics: O_APPEND appends whatever the cursor, negative positions and
	// reads on write-only handles are refused); afero's MemMapFs deviates from those, stfs does not
	ref := afero.NewBasePathFs(afero.NewOsFs(), t.TempDir())
	var sn, fn []string
	for k := range seqs {
		sn = append(sn, k)
	}
	for k := range flagSets {
		fn = append(fn, k)
	}
	sort.Strings(sn)
	sort.Strings(fn)
	i := 0
	for _, s := range sn {
		for _, fl := range fn {
			if strings.Contains(fl, "O_APPEND") && !appendOK[s] {
				continue
			}
			tag, rep := "FAILING-INPUT", t.Errorf
			if knownFinding[s] {
				tag, rep = "KNOWN-FINDING-INPUT", t.Logf
			}
			i++
			name := fmt.Sprintf("/h%d", i)
			var hs [2]afero.File
			for k, fs := range []afero.Fs{real, ref} {
				f, err := fs.Create(name)
				if err != nil {
					t.Fatal(err)
				}
				f.Write([]byte("0123456789"))
				if err := f.Close(); err != nil {
					t.Fatal(err)
				}
				h, err := fs.OpenFile(name, flagSets[fl], 0o644)
				if err != nil {
					t.Fatalf("open %s with %s (stfs=%v): %v", name, fl, k == 0, err)
				}
				hs[k] = h
			}
			var done []string
			for j, o := range seqs[s] {
				n1, b1, e1 := o.run(hs[0])
				n2, b2, e2 := o.run(hs[1])
				done = append(done, o.name)
				if n1 != n2 || !bytes.Equal(b1, b2) || (e1 == nil) != (e2 == nil) {
					rep("%s: handle opened %s on a file holding \"0123456789\", step %d (%s): stfs returned (%d, %q, %v), the reference (%d, %q, %v); calls so far: %s", tag, fl, j, o.name, n1, b1, e1, n2, b2, e2, strings.Join(done, "; "))
					break
				}
			}
			c1, c2 := hs[0].Close(), hs[1].Close()
			if (c1 == nil) != (c2 == nil) {
				t.Errorf("FAILING-INPUT: handle opened %s, calls %s: close returned %v on stfs, %v on the reference", fl, strings.Join(done, "; "), c1, c2)
			}
			var got [2][]byte
			for k, fs := range []afero.Fs{real, ref} {
				r, err := fs.Open(name)
				if err != nil {
					t.Errorf("FAILING-INPUT: handle opened %s, calls %s: reopening (stfs=%v): %v", fl, strings.Join(done, "; "), k == 0, err)
					continue
				}
				got[k], _ = io.ReadAll(r)
				r.Close()
			}
			if !bytes.Equal(got[0], got[1]) {
				rep("%s: handle opened %s on a file holding \"0123456789\", calls %s: after close the file holds %q on stfs and %q on the reference", tag, fl, strings.Join(done, "; "), got[0], got[1])
			}
		}
	}
}
