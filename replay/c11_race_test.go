package fs

import (
	"os"
	"sync"
	"testing"

	"github.com/pojntfx/stfs/pkg/config"
)

// C11 finding: File methods read f.info before taking the io lock while Sync replaces f.info under the lock.
// Run with -race: the detector reports the conflicting accesses on the unchanged tree.
func TestVerifReplay_C11_FileInfoReadOutsideLock(t *testing.T) {
	v := newVerifFS(t, false, config.PipeConfig{})
	if _, err := v.fs.Initialize("/", 0o755); err != nil {
		t.Fatal(err)
	}
	f, err := v.fs.OpenFile("/a", os.O_CREATE|os.O_RDWR, 0o644)
	if err != nil {
		t.Fatal(err)
	}
	var wg sync.WaitGroup
	wg.Add(2)
	go func() {
		defer wg.Done()
		for i := 0; i < 3000; i++ {
			f.Write([]byte("x"))
		}
	}()
	go func() {
		defer wg.Done()
		for i := 0; i < 40; i++ {
			f.Sync()
		}
	}()
	wg.Wait()
	f.Close()
}
