package fs

import (
	"archive/tar"
	"os"
	"path/filepath"
	"testing"
	"time"

	"github.com/pojntfx/stfs/pkg/config"
)

func writeForeignTar(t *testing.T, path string, format tar.Format) {
	f, err := os.Create(path)
	if err != nil {
		t.Fatal(err)
	}
	tw := tar.NewWriter(f)
	now := time.Unix(1700000000, 0)
	for _, h := range []*tar.Header{
		{Typeflag: tar.TypeDir, Name: "./", Mode: 0o755, ModTime: now, Format: format},
		{Typeflag: tar.TypeDir, Name: "./d/", Mode: 0o755, ModTime: now, Format: format},
		{Typeflag: tar.TypeReg, Name: "./d/f.txt", Mode: 0o644, Size: 5, ModTime: now, Format: format},
		{Typeflag: tar.TypeReg, Name: "./d/g.txt", Mode: 0o644, Size: 5, ModTime: now, Format: format},
	} {
		if err := tw.WriteHeader(h); err != nil {
			t.Fatal(err)
		}
		if h.Typeflag == tar.TypeReg {
			tw.Write([]byte("hello"))
		}
	}
	tw.Close()
	f.Close()
}

// F-format demonstration: members of a foreign ustar/GNU archive can be removed and renamed.
func TestVerifReplay_C17_ForeignMembersCanBeRemovedAndRenamed(t *testing.T) {
	for _, format := range []tar.Format{tar.FormatUSTAR, tar.FormatGNU, tar.FormatPAX} {
		dir := t.TempDir()
		drive := filepath.Join(dir, "foreign.tar")
		writeForeignTar(t, drive, format)
		v := openVerifFS(t, dir, drive, false, config.PipeConfig{})
		if _, err := v.fs.Initialize("/", 0o755); err != nil {
			t.Fatalf("%v: Initialize: %v", format, err)
		}
		if !within(t, 5*time.Second, "Remove of a foreign member", func() {
			if err := v.fs.Remove("/d/f.txt"); err != nil {
				t.Errorf("%v: Remove(/d/f.txt): %v", format, err)
			}
		}) {
			return
		}
		if !within(t, 5*time.Second, "Rename of a foreign member", func() {
			if err := v.fs.Rename("/d/g.txt", "/d/h.txt"); err != nil {
				t.Errorf("%v: Rename(/d/g.txt, /d/h.txt): %v", format, err)
			}
		}) {
			return
		}
		if _, err := v.fs.Stat("/d/h.txt"); err != nil {
			t.Errorf("%v: Stat(/d/h.txt) after rename: %v", format, err)
		}
	}
}
