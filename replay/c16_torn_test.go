package fs

// Replay for C16/C06: a tape whose last record is cut inside its content is opened with a fresh index.
// Expected: Initialize leaves the tape bytes alone and the entries written before the torn record are visible.

import (
	"bytes"
	"io"
	"os"
	"path/filepath"
	"testing"

	"github.com/pojntfx/stfs/pkg/config"
)

func TestVerifReplay_C16_OpenOverTornTape(t *testing.T) {
	a := newVerifFS(t, false, config.PipeConfig{})
	if _, err := a.fs.Initialize("/", os.ModePerm); err != nil {
		t.Fatal(err)
	}
	first := bytes.Repeat([]byte("first"), 600)
	h, err := a.fs.Create("/first.bin")
	if err != nil {
		t.Fatal(err)
	}
	h.Write(first)
	if err := h.Close(); err != nil {
		t.Fatal(err)
	}
	h, err = a.fs.Create("/last.bin")
	if err != nil {
		t.Fatal(err)
	}
	h.Write(bytes.Repeat([]byte("x"), 30000))
	if err := h.Close(); err != nil {
		t.Fatal(err)
	}
	full, err := os.ReadFile(a.drive)
	if err != nil {
		t.Fatal(err)
	}
	// cut on the block grid, inside the content of /last.bin
	cut := (len(full)/512 - 30) * 512
	dir2 := t.TempDir()
	drive2 := filepath.Join(dir2, "drive.tar")
	if err := os.WriteFile(drive2, full[:cut], 0o644); err != nil {
		t.Fatal(err)
	}
	b := openVerifFS(t, dir2, drive2, false, config.PipeConfig{})
	root, ierr := b.fs.Initialize("/", os.ModePerm)
	t.Logf("Initialize over the torn tape returned root=%q err=%v", root, ierr)
	after, err := os.ReadFile(drive2)
	if err != nil {
		t.Fatal(err)
	}
	if !bytes.Equal(after, full[:cut]) {
		t.Errorf("Initialize changed the tape: %d bytes before, %d bytes after (a root already exists on it)", cut, len(after))
	}
	if ierr == nil {
		fh, err := b.fs.Open("/first.bin")
		if err != nil {
			t.Fatalf("/first.bin, written completely before the torn record, is not visible after opening: %v", err)
		}
		got, err := io.ReadAll(fh)
		fh.Close()
		if err != nil || !bytes.Equal(got, first) {
			t.Errorf("/first.bin reads %d bytes (err=%v), written %d", len(got), err, len(first))
		}
	}
}
