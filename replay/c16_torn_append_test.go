package fs

// Replay for C16 (known finding): entries written after opening a tape with a torn tail.

import (
	"bytes"
	"io"
	"os"
	"path/filepath"
	"testing"

	"github.com/pojntfx/stfs/pkg/config"
)

func TestVerifReplay_C16_WriteAfterOpeningTornTape(t *testing.T) {
	for _, unaligned := range []int{0, 137} {
		a := newVerifFS(t, false, config.PipeConfig{})
		if _, err := a.fs.Initialize("/", os.ModePerm); err != nil {
			t.Fatal(err)
		}
		for _, n := range []string{"/first.bin", "/last.bin"} {
			h, err := a.fs.Create(n)
			if err != nil {
				t.Fatal(err)
			}
			h.Write(bytes.Repeat([]byte(n), 3000))
			if err := h.Close(); err != nil {
				t.Fatal(err)
			}
		}
		full, _ := os.ReadFile(a.drive)
		cut := (len(full)/512-30)*512 + unaligned
		dir2 := t.TempDir()
		drive2 := filepath.Join(dir2, "drive.tar")
		os.WriteFile(drive2, full[:cut], 0o644)
		b := openVerifFS(t, dir2, drive2, false, config.PipeConfig{})
		if _, err := b.fs.Initialize("/", os.ModePerm); err != nil {
			t.Fatalf("cut at %d: Initialize: %v", cut, err)
		}
		want := bytes.Repeat([]byte("new"), 2000)
		h, err := b.fs.Create("/new.bin")
		if err == nil {
			_, err = h.Write(want)
			if cerr := h.Close(); err == nil {
				err = cerr
			}
		}
		if err != nil {
			t.Errorf("cut at byte %d (%d past the block grid): writing /new.bin through the opened filesystem fails: %v", cut, unaligned, err)
			continue
		}
		dir3 := t.TempDir()
		c := openVerifFS(t, dir3, drive2, false, config.PipeConfig{})
		if _, err := c.fs.Initialize("/", os.ModePerm); err != nil {
			t.Errorf("cut at byte %d: rebuilding after the write: %v", cut, err)
		}
		fh, err := c.fs.Open("/new.bin")
		if err != nil {
			t.Errorf("cut at byte %d (%d past the block grid): /new.bin, written after opening the torn tape, does not survive a rebuild: %v", cut, unaligned, err)
			continue
		}
		got, err := io.ReadAll(fh)
		fh.Close()
		if err != nil || !bytes.Equal(got, want) {
			t.Errorf("cut at byte %d: /new.bin reads %d bytes after a rebuild (err=%v), written %d", cut, len(got), err, len(want))
		}
	}
}
