package fs

// Replay for C03/C12: under a compression format, removing a file whose own name ends with the codec suffix.

import (
	"os"
	"testing"

	"github.com/pojntfx/stfs/pkg/config"
)

func TestVerifReplay_C03_RemoveNameEndingInCodecSuffix(t *testing.T) {
	a := newVerifFS(t, false, config.PipeConfig{Compression: config.CompressionFormatZStandardKey})
	if _, err := a.fs.Initialize("/", os.ModePerm); err != nil {
		t.Fatal(err)
	}
	write := func(n, c string) {
		f, err := a.fs.Create(n)
		if err != nil {
			t.Fatal(err)
		}
		f.Write([]byte(c))
		if err := f.Close(); err != nil {
			t.Fatal(err)
		}
	}
	write("/b", "the sibling without the suffix")
	write("/b.zst", "a file whose own name ends in .zst")
	if err := a.fs.Remove("/b.zst"); err != nil {
		t.Fatalf("Remove(/b.zst): %v", err)
	}
	if _, err := a.fs.Stat("/b"); err != nil {
		t.Errorf("Remove(\"/b.zst\") removed the sibling /b: %v", err)
	}
	if _, err := a.fs.Stat("/b.zst"); err == nil {
		t.Errorf("Remove(\"/b.zst\") left /b.zst in place")
	}
}
