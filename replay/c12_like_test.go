package fs

import (
	"testing"

	"github.com/pojntfx/stfs/pkg/config"
)

// F-like demonstration: recursive removal touches exactly the named subtree, whatever characters names contain.
func TestVerifReplay_C12_RemoveAllWildcardAndCase(t *testing.T) {
	v := newVerifFS(t, false, config.PipeConfig{})
	if _, err := v.fs.Initialize("/", 0o755); err != nil {
		t.Fatal(err)
	}
	for _, d := range []string{"/a", "/ab", "/a_", "/A"} {
		if err := v.fs.Mkdir(d, 0o755); err != nil {
			t.Fatal(err)
		}
		f, err := v.fs.Create(d + "/x")
		if err != nil {
			t.Fatal(err)
		}
		f.Close()
	}
	if err := v.fs.RemoveAll("/a_"); err != nil {
		t.Fatal(err)
	}
	if err := v.fs.RemoveAll("/A"); err != nil {
		t.Fatal(err)
	}
	for _, keep := range []string{"/a/x", "/ab/x"} {
		if _, err := v.fs.Stat(keep); err != nil {
			t.Errorf("%s was removed by RemoveAll of a sibling directory: %v", keep, err)
		}
	}
	for _, gone := range []string{"/a_/x", "/A/x"} {
		if _, err := v.fs.Stat(gone); err == nil {
			t.Errorf("%s survived RemoveAll of its directory", gone)
		}
	}
}
