package fs

import (
	"os"
	"testing"
	"time"

	"github.com/pojntfx/stfs/pkg/config"
)

// F-locks demonstration: a rejected RemoveAll (nothing to delete) must leave the drive free for the next call.
func TestVerifReplay_C10_RemoveAllMissingThenCreate(t *testing.T) {
	v := newVerifFS(t, false, config.PipeConfig{})
	if _, err := v.fs.Initialize("/", 0o755); err != nil {
		t.Fatal(err)
	}
	_ = v.fs.RemoveAll("/nope")
	within(t, 3*time.Second, "Create after RemoveAll of a missing path", func() {
		f, err := v.fs.Create("/a")
		if err == nil {
			f.Close()
		}
	})
}

// Rename with a missing source is rejected inside Operations.Move after the drive was opened for writing.
func TestVerifReplay_C10_MoveMissingThenMkdir(t *testing.T) {
	v := newVerifFS(t, false, config.PipeConfig{})
	if _, err := v.fs.Initialize("/", 0o755); err != nil {
		t.Fatal(err)
	}
	_ = v.fs.writeOps.Move("/nope", "/other")
	within(t, 3*time.Second, "Mkdir after Move of a missing path", func() {
		_ = v.fs.Mkdir("/d", 0o755)
	})
}

// Known finding (design-level): a partial read leaves a background Restore goroutine holding the drive and the
// read-operations lock, so the next mutating call blocks.
func TestVerifReplay_C10_PartialReadThenCreate(t *testing.T) {
	v := newVerifFS(t, false, config.PipeConfig{})
	if _, err := v.fs.Initialize("/", 0o755); err != nil {
		t.Fatal(err)
	}
	f, err := v.fs.Create("/a")
	if err != nil {
		t.Fatal(err)
	}
	if _, err := f.Write(make([]byte, 200000)); err != nil {
		t.Fatal(err)
	}
	if err := f.Close(); err != nil {
		t.Fatal(err)
	}
	r, err := v.fs.Open("/a")
	if err != nil {
		t.Fatal(err)
	}
	buf := make([]byte, 10)
	if _, err := r.Read(buf); err != nil {
		t.Fatal(err)
	}
	within(t, 3*time.Second, "Create after a partial read of another file", func() {
		g, err := v.fs.Create("/b")
		if err == nil {
			g.Close()
		}
	})
}

// Known finding: an error of the background Restore other than a closed pipe panics the whole process.
func TestVerifReplay_C10_ReadPanicsWhenDriveUnreadable(t *testing.T) {
	v := newVerifFS(t, false, config.PipeConfig{})
	if _, err := v.fs.Initialize("/", 0o755); err != nil {
		t.Fatal(err)
	}
	f, err := v.fs.Create("/a")
	if err != nil {
		t.Fatal(err)
	}
	f.Write([]byte("hello"))
	f.Close()
	r, err := v.fs.Open("/a")
	if err != nil {
		t.Fatal(err)
	}
	os.Remove(v.drive) // the drive disappears: GetReader fails inside the goroutine
	buf := make([]byte, 5)
	_, err = r.Read(buf)
	time.Sleep(500 * time.Millisecond)
	t.Logf("Read returned %v without crashing the process", err)
}
