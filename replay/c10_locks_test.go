package fs

import (
	"testing"
	"time"

	"github.com/pojntfx/stfs/pkg/config"
)

// F-locks demonstration: a rejected RemoveAll (nothing to delete) must leave the drive free for the next call.
func TestVerifReplay_C10_RemoveAllMissingThenCreate(t *testing.T) {
	v := newVerifFS(t, false, config.PipeConfig{})
	if _, err := v.fs.Initialize("/", 0o755); err != nil {
		t.Fatal(err)
	}
	_ = v.fs.RemoveAll("/nope")
	within(t, 3*time.Second, "Create after RemoveAll of a missing path", func() {
		f, err := v.fs.Create("/a")
		if err == nil {
			f.Close()
		}
	})
}

// Rename with a missing source is rejected inside Operations.Move after the drive was opened for writing.
func TestVerifReplay_C10_MoveMissingThenMkdir(t *testing.T) {
	v := newVerifFS(t, false, config.PipeConfig{})
	if _, err := v.fs.Initialize("/", 0o755); err != nil {
		t.Fatal(err)
	}
	_ = v.fs.writeOps.Move("/nope", "/other")
	within(t, 3*time.Second, "Mkdir after Move of a missing path", func() {
		_ = v.fs.Mkdir("/d", 0o755)
	})
}
