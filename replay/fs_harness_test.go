package fs

// Replay harness (injected with `go test -overlay`, never written into /repo): builds a real STFS over a temp tar
// file and a real SQLite index, the way examples/simple does.

import (
	"context"
	"os"
	"path/filepath"
	"testing"
	"time"

	"github.com/pojntfx/stfs/pkg/cache"
	"github.com/pojntfx/stfs/pkg/config"
	ilogging "github.com/pojntfx/stfs/internal/logging"
	"github.com/pojntfx/stfs/pkg/operations"
	"github.com/pojntfx/stfs/pkg/persisters"
	"github.com/pojntfx/stfs/pkg/tape"
)

type verifFS struct {
	fs    *STFS
	tm    *tape.TapeManager
	meta  *persisters.MetadataPersister
	drive string
	dir   string
}

func newVerifFS(t testing.TB, readOnly bool, pipes config.PipeConfig) *verifFS {
	dir, err := os.MkdirTemp("", "stfs-replay-")
	if err != nil {
		t.Fatal(err)
	}
	t.Cleanup(func() { os.RemoveAll(dir) })
	drive := filepath.Join(dir, "drive.tar")
	return openVerifFS(t, dir, drive, readOnly, pipes)
}

func openVerifFS(t testing.TB, dir, drive string, readOnly bool, pipes config.PipeConfig) *verifFS {
	if pipes.RecordSize == 0 {
		pipes.RecordSize = 20
	}
	tm := tape.NewTapeManager(drive, nil, pipes.RecordSize, false)
	meta := persisters.NewMetadataPersister(filepath.Join(dir, "index.sqlite"))
	if err := meta.Open(); err != nil {
		t.Fatal(err)
	}
	l := ilogging.NewJSONLogger(0)
	backend := config.BackendConfig{
		GetWriter: tm.GetWriter, CloseWriter: tm.Close,
		GetReader: tm.GetReader, CloseReader: tm.Close,
		MagneticTapeIO: nil,
	}
	mc := config.MetadataConfig{Metadata: meta}
	crypto := config.CryptoConfig{}
	readOps := operations.NewOperations(backend, mc, pipes, crypto, func(event *config.HeaderEvent) {})
	writeOps := operations.NewOperations(backend, mc, pipes, crypto, func(event *config.HeaderEvent) {})
	f := NewSTFS(readOps, writeOps, mc, config.CompressionLevelFastestKey,
		func() (cache.WriteCache, func() error, error) {
			return cache.NewCacheWrite(filepath.Join(dir, "wc"), config.WriteCacheTypeMemory)
		},
		readOnly, false, func(hdr *config.Header) {}, l)
	return &verifFS{fs: f, tm: tm, meta: meta, drive: drive, dir: dir}
}

// within runs fn under a watchdog; a call that does not return in time is a hang (leaked lock).
func within(t testing.TB, d time.Duration, what string, fn func()) bool {
	done := make(chan struct{})
	go func() { defer close(done); fn() }()
	select {
	case <-done:
		return true
	case <-time.After(d):
		t.Errorf("HANG: %s did not return within %v (drive or lock leaked)", what, d)
		return false
	}
}

var _ = context.Background
