#!/bin/bash
# Applies every harmless refactor of /verif/selftest/green to a scratch worktree and expects every claimed check to stay green.
# Runs against a frozen snapshot of the committed /verif (like eval_seeded.sh), so that editing /verif while it runs
# cannot produce alarms that are artefacts of a half-updated framework.
export GOFLAGS=-mod=mod GOPROXY=off GOSUMDB=off GOTOOLCHAIN=local
SNAP=$(mktemp -d /tmp/verifsnap.XXXXXX)
git -C /verif archive HEAD | tar -x -C $SNAP
mkdir -p $SNAP/bin && (cd $SNAP/engine && go build -o $SNAP/bin/stfsvc .) || exit 2
rc=0
for d in $SNAP/selftest/green/*.diff; do
  WT=/tmp/green_$$
  git -C /repo worktree remove --force $WT 2>/dev/null
  git -C /repo worktree add -q --detach $WT HEAD || exit 2
  (cd $WT && git apply $d && go build ./...) || { echo "$d: does not apply/build"; rc=2; git -C /repo worktree remove --force $WT; continue; }
  for p in $(python3 -c "import json;print(' '.join(c['property_id'] for c in json.load(open('$SNAP/MANIFEST.json'))['checks']))"); do
    out=$(STFS_NO_REPLAY=1 STFS_VERIF=$SNAP STFS_OUT=$SNAP/scratch STFS_REPO=$WT $SNAP/bin/stfsvc check $p 2>&1); r=$?
    if [ $r -ne 0 ]; then echo "FALSE ALARM on $(basename $d): $p rc=$r"; echo "$out" | grep -E "VIOLATION|BROKEN" | head -3 | cut -c1-220; rc=1; fi
  done
  git -C /repo worktree remove --force $WT
done
rm -rf $SNAP
[ $rc -eq 0 ] && echo "green corpus: no check raised an alarm"
exit $rc
