#!/bin/bash
# Re-checks, on /repo HEAD, that every seeded change still applies, builds, and that its demonstration passes without
# it and fails with it (fixes made after a change was seeded can neutralise it). usage: reconfirm_demos.sh [id...]
export GOFLAGS=-mod=mod GOPROXY=off GOSUMDB=off GOTOOLCHAIN=local
ids="$@"; [ -z "$ids" ] && ids=$(ls /verif/seeded | grep -v "^_")
for id in $ids; do
  d=/verif/seeded/$id
  pkg=$(python3 -c "import json;print(json.load(open('$d/meta.json'))['demo_package'])")
  WT=/tmp/rc_$id
  git -C /repo worktree remove --force $WT 2>/dev/null
  git -C /repo worktree add -q --detach $WT HEAD || continue
  cp $d/zz_demo_test.go $WT/$pkg/zz_demo_test.go
  (cd $WT && go test -vet=off -count=1 -timeout 600s -run 'TestDemo' ./$pkg/ > $d/demo_clean.log 2>&1); clean=$?
  if (cd $WT && git apply $d/patch.diff 2>/dev/null); then applies=0; else applies=1; fi
  (cd $WT && go build ./... > /dev/null 2>&1); build=$?
  (cd $WT && go test -vet=off -count=1 -timeout 600s -run 'TestDemo' ./$pkg/ > $d/demo_patched.log 2>&1); patched=$?
  git -C /repo worktree remove --force $WT
  status=valid
  [ $applies -ne 0 ] && status="patch-does-not-apply"
  [ $applies -eq 0 ] && [ $build -ne 0 ] && status="does-not-build"
  [ $applies -eq 0 ] && [ $build -eq 0 ] && [ $clean -ne 0 ] && status="demo-fails-on-HEAD"
  [ $applies -eq 0 ] && [ $build -eq 0 ] && [ $clean -eq 0 ] && [ $patched -eq 0 ] && status="demo-passes-with-change(neutralised)"
  python3 - "$id" "$status" <<'PY'
import json,sys,subprocess
p='/verif/seeded/%s/meta.json'%sys.argv[1]
m=json.load(open(p)); m['reconfirmed_on']=subprocess.check_output(['git','-C','/repo','rev-parse','--short','HEAD']).decode().strip(); m['reconfirm_status']=sys.argv[2]
m['demo_passes_on_unchanged_tree']= sys.argv[2] in ('valid','demo-passes-with-change(neutralised)'); m['demo_fails_with_change']= sys.argv[2]=='valid'
json.dump(m,open(p,'w'),indent=1)
print(sys.argv[1], sys.argv[2])
PY
done
