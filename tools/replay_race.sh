#!/bin/bash
# like replay.sh but with the race detector: usage: replay_race.sh <repo-dir> <pkg-rel-dir> <run-regex> file_test.go...
REPO=$1; PKG=$2; RUN=$3; shift 3
export GOFLAGS=-mod=mod GOPROXY=off GOSUMDB=off GOTOOLCHAIN=local
OV=$(mktemp /tmp/overlay.XXXXXX.json)
python3 - "$REPO" "$PKG" "$OV" "$@" <<'PY'
import json,sys,os
repo,pkg,ov=sys.argv[1:4]
rep={}
for f in sys.argv[4:]:
    rep[os.path.join(repo,pkg,'zz_verif_'+os.path.basename(f))]=os.path.abspath(f)
json.dump({'Replace':rep},open(ov,'w'))
PY
(cd $REPO && go test -race -overlay $OV -vet=off -count=1 -timeout 300s -run "$RUN" ./$PKG/ 2>&1)
rc=$?; rm -f $OV; exit $rc
