#!/bin/bash
# Runs every replay battery on a tree (default /repo) and expects none of them to find a failing input: the batteries are
# only meaningful as replays if they are silent on a tree where the properties hold (apart from recorded findings,
# which they print as KNOWN-FINDING-INPUT). usage: batteries_head.sh [repo-dir]
R=${1:-/repo}
rc=0
run() { # env-assignment script template regex
  out=$(env $1 /verif/tools/$2 $R pkg/fs "$4" /verif/replay/templates/$3 2>&1)
  n=$(echo "$out" | grep -c "FAILING-INPUT\|^panic:\|WARNING: DATA RACE")
  if [ "$n" -ne 0 ]; then echo "BATTERY $1: $n failing inputs"; echo "$out" | grep "FAILING-INPUT\|^panic:\|DATA RACE" | head -3 | cut -c1-300; rc=1; else echo "battery $1: silent"; fi
}
for b in roundtrip torn positions appendonly ciphertext readonly tamper; do run VERIF_BATTERY=$b replay.sh fs_battery_test.go 'TestVerifReplay_Battery$'; done
for m in tree rebuild file flags random foreign reindex; do run VERIF_MODEL=$m replay.sh fs_model_test.go 'TestVerifReplay_Model$'; done
run VERIF_MODEL=concurrent replay_race.sh fs_model_test.go 'TestVerifReplay_Model$'
exit $rc
