#!/bin/bash
# Runs the repository's pinned baseline (guard OFF) and compares with /root/.vp/BASELINE.json stable_pass.
# usage: baseline.sh [repo-dir] ; prints missing passes, exit 0 iff all 10401 stable tests pass.
REPO=${1:-/repo}
export GOFLAGS=-mod=mod GOPROXY=off GOSUMDB=off GOTOOLCHAIN=local
OUT=$(mktemp /tmp/baseline.XXXXXX.json)
(cd $REPO && go test -json -vet=off -count=1 -timeout 25m ./... > $OUT 2>/dev/null)
python3 - "$OUT" <<'PY'
import json,sys
base=set(json.load(open('/root/.vp/BASELINE.json'))['stable_pass'])
passed=set()
for l in open(sys.argv[1]):
    try: e=json.loads(l)
    except Exception: continue
    if e.get('Action')=='pass' and e.get('Test'):
        passed.add(e['Package']+'::'+e['Test'])
missing=sorted(base-passed)
print('baseline stable:',len(base),'passed-of-those:',len(base&passed),'missing:',len(missing))
for m in missing[:20]: print('  MISSING',m)
sys.exit(1 if missing else 0)
PY
rc=$?
rm -f $OUT
exit $rc
