#!/bin/bash
# Runs every claimed check (quick tier) and prints one summary line each; exit 1 if any is not clean.
rc=0
for p in $(python3 -c "import json;print(' '.join(c['property_id'] for c in json.load(open('/verif/MANIFEST.json'))['checks']))"); do
  out=$(/verif/bin/stfsvc check $p 2>&1); r=$?
  echo "$out" | tail -1 | sed "s/^/[rc=$r] /"
  if [ $r -ne 0 ]; then rc=1; echo "$out" | grep -E "VIOLATION|BROKEN" | cut -c1-260 | head -5; fi
done
exit $rc
