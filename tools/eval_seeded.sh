#!/bin/bash
# Evaluates seeded changes against a frozen snapshot of the committed /verif and of /repo HEAD, so that editing /verif
# while it runs does not disturb it.
# usage: eval_seeded.sh [id...]   -> one line per change; updates seeded/<id>/meta.json (checks_raising)
set -u
export GOFLAGS=-mod=mod GOPROXY=off GOSUMDB=off GOTOOLCHAIN=local
SNAP=$(mktemp -d /tmp/verifsnap.XXXXXX)
git -C /verif archive HEAD | tar -x -C $SNAP
mkdir -p $SNAP/bin && (cd $SNAP/engine && go build -o $SNAP/bin/stfsvc .) || exit 2
ids="$@"; [ -z "$ids" ] && ids=$(ls /verif/seeded | grep -v "^_")
props=$(python3 -c "import json;print(' '.join(c['property_id'] for c in json.load(open('$SNAP/MANIFEST.json'))['checks']))")
for id in $ids; do
  d=/verif/seeded/$id
  WT=/tmp/ev_$id
  git -C /repo worktree remove --force $WT 2>/dev/null
  git -C /repo worktree add -q --detach $WT HEAD || continue
  if ! (cd $WT && git apply $d/patch.diff 2>/dev/null); then echo "$id: patch does not apply on HEAD"; git -C /repo worktree remove --force $WT; continue; fi
  (cd $WT && go build ./...) || { echo "$id: does not build"; git -C /repo worktree remove --force $WT; continue; }
  caught=""
  for p in $props; do
    STFS_NO_REPLAY=1 STFS_VERIF=$SNAP STFS_OUT=$SNAP/scratch STFS_REPO=$WT $SNAP/bin/stfsvc check $p > $d/check_$p.log 2>&1; rc=$?
    [ $rc -ne 0 ] && caught="$caught $p(rc=$rc)"
  done
  git -C /repo worktree remove --force $WT
  python3 - "$id" "$caught" <<'PY'
import json,sys
p='/verif/seeded/%s/meta.json'%sys.argv[1]
m=json.load(open(p)); m['checks_raising']=sys.argv[2].split(); json.dump(m,open(p,'w'),indent=1)
print(sys.argv[1], 'breaks', m['breaks_property'], '-> raised by', m['checks_raising'])
PY
done
rm -rf $SNAP
