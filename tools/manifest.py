#!/usr/bin/env python3
"""Regenerates /verif/MANIFEST.json from the table below (single source of truth for what is claimed)."""
import json, subprocess

CLAIMED = {
 "C10": dict(
   text="Deductive: lock-balance ghost state (drive held / per-mutex held) is proved free on every return path of the functions under contract, for every outcome of every callee (each error return of a callee is a CFG path), plus explicit-panic/type-assertion safety. Unbounded in inputs and fault points; no scheduling.",
   note="Assumed: sync.Mutex semantics, the abstract spec of the four BackendConfig drive funcs, callbacks do not touch locks; go/ssa as semantics; SMT solvers. Liveness of io.Pipe hand-off is not decided.",
   design="4.10"),
 "C01": dict(
   text="Deductive, partial: (a) the four header converters copy every column to the like-named field (a swapped or dropped field fails); (b) in Archive/Update the in-memory header that the incremental re-index substitutes for what it reads back equals, field by field, the header that is sealed and written (no store between the copy and SignHeader) -- the mechanism that keeps the live index equal to a rebuild; (c) the rebuild in fs.Initialize starts at position 0 into a purged index with the non-initializing name handling. The representation invariant 'index = replay(tape)' over all histories is NOT mechanised (index-view contracts of DESIGN 4.1 not built).",
   note="Assumed: json/tar header round-trip, SQL specs. Undecided: Rep/LastIdx/RootCache invariants, Delete/Move in-memory copies (slice elements), symlink rows, root spelling sigma.",
   design="4.1"),
 "C02": dict(
   text="Deductive, partial: every successful Rename of a writable instance performs exactly one Move (after optionally removing the destination), for every outcome of every lookup; operation counters force every function between the API and the operations layer to declare what it calls. The full decision tables of DESIGN 4.2 (reject conditions and effects of every method against the reference semantics) are NOT built.",
   note="Undecided: reject/accept tables for Create/OpenFile/Mkdir/MkdirAll/Remove/attribute changes, names preserved, File.sync resurrection of tombstones. Known defects on the pinned tree not yet decided by an obligation: Mkdir/Create under a regular file, MkdirAll creates only the leaf, OpenFile(O_CREATE|O_EXCL) on a missing file reports not-exist.",
   design="4.2"),
 "C11": dict(
   text="Deductive, restricted (no interleaving semantics): the premises of the global-lock argument are proved -- every read or write of the mutable fields of an open file (info, stream reader/writer, write cache and its cleanup) happens while the shared io lock is held by the calling thread, on every path of every File method and helper; every index lookup, listing, root lookup and every operations-layer call made by an STFS or File method happens under the io lock; lock acquisition/release is balanced on every path (C10). From these, mutual atomicity of method bodies follows by the standard single-global-lock argument, which is stated in DESIGN 4.11 and not mechanised.",
   note="Not decided: scheduler fairness/liveness, database/sql internals, the persister's root cache (guarded by a lock of another object), Create's advisory parent lookup before OpenFile (repeated under the lock), SymlinkIfPossible's root lookup before the lock, the background Restore goroutine of the read path (touches the index outside the lock: same design-level finding as C10).",
   design="4.11"),
 "C12": dict(
   text="Deductive for the Go parts, bounded for the SQL: Rename is proved to refuse every destination below the source (string theory over cleaned paths) without writing; the child selection of recursive remove/rename (GetHeaderChildren) and the key rewrite (MoveHeader) are executed exhaustively on the real SQLite over all small index views of an adversarial name alphabet (_, %, case pairs, multi-byte, space, dot, prefix-related siblings) and compared with the set comprehension of their contracts -- labelled bounded, not proved.",
   note="Bounded scope: <= 2 rows per view (thorough 3), alphabet of 19 names, depth <= 3. Undecided: Delete/Move record sets and the new-name formula of Operations.Move (slice/element reasoning not built), symlink rows.",
   design="4.12"),
 "C03": dict(
   text="Deductive, partial: RemoveSuffix(AddSuffix(n)) = n for every name and every known format pair (string lemma over the two function contracts, each proved against its body); the indexer strips the suffix exactly from content-carrying records and the writers add it only together with the size record; the stored size is the recorded content length whenever the record is present; a member whose size was computed from content has that content written (shared with C05).",
   note="Assumed: codec/cipher inverses and determinism of encoded length (library behaviour, DESIGN 3.5), strconv.Atoi/Itoa as inverse functions. Undecided: two-pass parameter equality, close order, Fetch's inverse reader stack, Compress level table.",
   design="4.3"),
 "C06": dict(
   text="Deductive, partial: every re-synchronisation seek of Index and Query after a parse error goes forward to the next 512 boundary (target >= current offset, < current+512, aligned) for every offset and record size -- the progress step that makes a torn, unaligned tail terminate; header positions stay exact across resynchronisation (C04 invariant); no explicit panic is reachable in Index/indexHeader (C10 sweep).",
   note="Assumed: tar reader ghost spec on truncated input. Undecided: full termination measure, 'state after the last complete record' (needs C01's fold invariant), Fetch's error on a torn member, tape-drive branch.",
   design="4.6"),
 "C07": dict(
   text="Deductive, partial: UpsertHeader is state-oblivious -- on success it always writes the incoming row (all non-key columns equal the incoming header, including deleted), whatever the index already holds; DeleteHeader keeps the row as a tombstone with the new last-known position; Index purges only under an explicit overwrite request. Convergence of a non-wiping replay additionally needs totality of MoveHeader on existing keys, which is SQL behaviour (not decided here) and the induction of DESIGN 4.7 (stated, not mechanised).",
   note="Assumed: sqlboiler Insert/Update semantics as in specs/90_sql.spec. Known gap on the pinned tree: MoveHeader violates the primary key when the new name already has a row (rename onto a previously used name; replay of moves) -- not decided by any obligation yet.",
   design="4.7"),
 "C13": dict(
   text="Deductive, partial: a count-limited directory listing returns at most n entries for every n > 0 and every result size of the underlying queries (limit arithmetic of GetHeaderDirectChildren, including the slice bound).",
   note="Undecided: tree well-formedness invariant, exactness of listings (SQL depth expression), parent-must-be-directory (known defect on the pinned tree: Mkdir/Create under a regular file succeeds; MkdirAll creates only the leaf).",
   design="4.13"),
 "C16": dict(
   text="Deductive, partial: when Initialize rebuilds a missing index it indexes from position 0 with purge and with non-initializing name sanitising, from the configured read backend (a flipped flag fails); truncation can only come from the manager's overwrite flag (C05); a read-only instance never appends (C15).",
   note="Undecided / known gaps on the pinned tree: a rebuild error (torn tail) falls through to creating a second root; a stale index is accepted as is; appending after an unaligned cut.",
   design="4.16"),
 "C17": dict(
   text="Deductive, partial: every header handed to the tar writer by Archive/Update/Delete/Move is in PAX format whatever format the indexed row came from (so members of foreign ustar/GNU archives can be removed and renamed); a record without STFS action/version records is applied as a version-1 CREATE; the cache wrapper adds a base-path view exactly when the root is not one of the four root spellings and passes root and base unchanged; IsRoot recognises exactly the four spellings; the rebuild of a foreign tape uses the non-initializing (sanitising) name handling from position 0 (shared with C16); header positions survive the zero blocks between concatenated archives (C04 invariant).",
   note="Undecided (library behaviour or not built): that archive/tar parses every ustar/PAX/GNU archive, afero.BasePathFs path composition, the root-inference SQL, getSanitizedPath's spelling equivalence per root shape (DESIGN 4.17), the size of foreign members after a metadata update.",
   design="4.17"),
 "C04": dict(
   text="Deductive: the position arithmetic of the regular-drive branches of recovery.Index and recovery.Query is proved for every record size >= 1 and every byte offset by a loop invariant over a ghost model of the drive offset and of archive/tar's reader (next header = drive offset + unread payload + padding): the (record, block) handed to the indexer/callback with each header is that header's start, 0 <= block < record size; Fetch seeks to exactly 512*(recordSize*record+block); Restore passes the row's own position. Non-linear integer arithmetic with a real-valued ceiling, unbounded.",
   note="Assumed: tar reader/Seek/io.Copy ghost specs written from reading archive/tar (specs/30_tar_positions.spec); float64 ceiling exact below 2^53; machine integers mathematical. Not decided here: tape-drive (mt ioctl) branches; the row-position rules of indexHeader and the last-indexed invariant (index-view obligations, not built yet); 'fetching returns current content' rests on C03/C05.",
   design="4.4"),
 "C05": dict(
   text="Deductive, for every input and every callee outcome: OpenTapeWriteOnly truncates / rewinds / probe-opens only under an explicit overwrite request and the handle it returns is opened O_APPEND without O_TRUNC for every flag word; a TapeManager honours its overwrite flag for its first writer only; the cleanup closure writes the trailer only if something was written and every successful operation that handed a header to the tar writer went through cleanup; a member whose size field was computed from its content always has that content written (the skip branch is proved unreachable for sized members).",
   note="Assumed: os.OpenFile flag semantics, archive/tar writer behaviour (well-formedness of what it emits), fs.FileInfo getters are functions of the receiver. Not decided / known gaps: tape-record padding for archives longer than one record (tape drives only), torn records after mid-payload errors (append-only media cannot roll back; design-level), byte-level 'previous content is a prefix' (follows from O_APPEND + truncate-only-on-overwrite under the OS semantics assumed).",
   design="4.5"),
 "C08": dict(
   text="Deductive: VerifyString accepts only if the library check succeeded on exactly (recipient, src) (minisign) resp. a PGP signature check succeeded on a hash that absorbed exactly src; VerifyHeader requires both records, verifies the embedded header, replaces every field of the outer header by the decoded embedded one and leaves no PAX record that is not in the signed header (encoding/json's merge-into-existing-map semantics is modelled); every header that reaches indexHeader / the Query result / Fetch's destination passed the verifier callback with no store in between; closures passed as verifier/decryptor are checked to conform to named specs, and Index requires a real verifier, or the substitution callback together with the no-op verifier (write paths).",
   note="Assumed: minisign.Verify / PublicKey.VerifySignature establish the uninterpreted predicates signedBy / pgpSigOK exactly when they report success; base64/json decode are functions of their input; a tar.Header is written by a callee without precise frame only if handed to it directly. Content verification (signature.Verify closure, Fetch content gate) and key identity for PGP are not yet under contract.",
   design="4.8"),
 "C09": dict(
   text="Deductive: EncryptHeader's post-state is proved field by field (every identifying field zero, size kept, PAX format, exactly one PAX record whose value is base64 of bytes produced only by the library encryptor); EncryptString returns ciphertext on both format branches and rejects unknown formats; at every tar WriteHeader call of archive/Update(both branches)/Delete/Move the header is proved sealed (a successful EncryptHeader on that very object with no store to it since) whenever encryption is configured.",
   note="Assumed: age.Encrypt/openpgp.Encrypt write only ciphertext to their destination; base64/bytes.Buffer transport specs; a tar.Header is written by a callee without precise frame only if handed to it directly. Not decided: that file *content* reaches the tape only through encryption.Encrypt (payload-through-encrypt), wrong-key failure (library behaviour), the constant synthetic PAX header name.",
   design="4.9"),
 "C14": dict(
   text="Deductive, for every offset, whence, buffer length and reader state: on a handle in read mode Seek returns exactly the reference offset (start / cursor+offset / size+offset), rejects negative targets and unknown whence values, and leaves the stream cursor at or before the target; Read returns len(p) bytes unless the stream ends, reports a short count only together with an error, and advances the cursor by the count it returns; Truncate leaves the write cache with exactly the requested length and, when growing, only appends (loop invariant over the cache-length ghost).",
   note="Assumed: the read stream delivers the stored content in order (C03/C04 + io.Pipe), io.CopyN/bytes.Buffer/copy specs, cache.WriteCache as a byte array (lengths and cursors only; byte values are not modelled). Not decided: byte values returned, Write/WriteAt/WriteString contents, O_APPEND behaviour, cursor position after Truncate, 'after close a fresh open reads the final bytes' (C03 + sync contract).",
   design="4.14"),
 "C15": dict(
   text="Deductive: ghost counters for 'drive opened for writing' and 'index-store mutator called' are proved unchanged on every path of every STFS/File method when the instance is read-only (resp. the handle lacks the write flag); mutating methods are proved to return ErrPermission; the flag word handed to NewFile is proved free of write/append/truncate for every flag value (bit operations exact). Ghost frames force every function between the API and the seams to declare its writes.",
   note="Assumed: the drive is only written through BackendConfig.GetWriter and the index only through the five MetadataPersister mutators (specs in /verif/specs); loggers and write caches do not touch stfs state; configuration fields immutable after construction (checked mechanically). 'Reads return what a writable instance returns' is not decided.",
   design="4.15"),
}

NOT_YET = {



 




 "C18": "No contract within reach can express or decide it: every clause quantifies over third-party cryptography (age scrypt, go-crypto S2K, minisign KDF) for all passwords; the stfs code involved is format dispatch only (DESIGN section 5).",
}

# Later additions (appended to the text) and replaced notes, kept apart so that the history of a claim stays readable.
EXTRA_TEXT = {
 "C04": " Added: Restore fetches each row at that row's own position (position and destination handed to Fetch belong to one element of the row list, stated without naming the loop variable). Bounded stand-in ioext:Counters (labelled bounded, not proved): the byte counters of internal/ioext (the handle's read cursor, the drive position on tapes) grow by exactly the count the wrapped stream delivered, for every script of <= 3 calls (thorough 4), buffer lengths 0..4, every delivered count and nil/EOF/other error.",
 "C01": " Added: the replayed row of a link stores the link path in the spelling lookups use (UpsertHeader sanitises name and link path alike); bounded stand-in sql:LinkListing runs the real persister on real SQLite in both index layouts (creating instance / rebuilt by replay). The in-memory headers the write operations hand to the indexer are copied before sealing and carry the action record (what a replay reads back after unwrapping).",
 "C02": " Added: a rename's children keep their relative names (new name = destination + stored name minus source prefix, for every spelling of the two); every delete operation issued by Rename and Remove goes through the guarded remove, which deletes a directory only after its listing came back empty and deletes exactly the named entry; Rename(x, x) removes nothing; the root is never removed; O_CREATE|O_EXCL refuses an existing entry; a handle entering write mode loads the existing content whenever a fresh lookup reports a non-empty file. A successful sync of a handle in write mode issues exactly one update operation (ghost opUpdates), whatever was or was not written through the handle since (O_TRUNC at open reaches the tape).",
 "C03": " Added: content completeness as a postcondition of recovery.Fetch over a history ghost (a regular member is reported restored only if a complete copy drained the verifier stream into the destination), the read pipeline wiring (decrypt the tape stream, decompress the decrypted stream, verify the decompressed stream, each with the configured format) and the write pipeline wiring in Archive/Update (compress into the encryptor, sign the source, whole source through the pipeline before Flush, configured formats and recipient, same compression level, drive kind and record size in the measuring and the writing pass); the codec suffix is never stripped from deletion, move or metadata-only records. Bounded stand-in ioext:Counters (labelled bounded, not proved): the byte counters of internal/ioext (the handle's read cursor, the drive position on tapes) grow by exactly the count the wrapped stream delivered, for every script of <= 3 calls (thorough 4), buffer lengths 0..4, every delivered count and nil/EOF/other error.",
 "C06": " Added: restoring a member whose content was cut short cannot report success (same history-ghost postcondition of Fetch as C03); reachability cover for the resynchronisation branch.",
 "C12": " Added: the children of a recursive Delete/Move come from the subtree query (not the one-level listing); Delete/Move records name exactly the stored rows; Rename rejects a destination inside the source by the *stored* names of source and destination parent (any spelling) and replaces an existing destination only through the guarded remove; bounded stand-ins now cover both index layouts and self-similar nesting.",
 "C13": " Added: Mkdir, OpenFile(O_CREATE), MkdirAll (every prefix) and Rename create or move entries only below an entry a lookup has just shown to be a directory; syncing an open file writes only if a lookup has just shown the entry to exist (no resurrection after remove); bounded stand-ins: exact one-level listings over self-similar names in both index layouts, links listed once with their target's attributes. Every lookup of a creating or removing method lies in the critical section (filesystem lock held) that also appends the record.",
 "C14": " Added: entering write mode keeps the cursor (writes continue where reads left off) and empties the buffer under O_TRUNC; O_TRUNC takes effect at open; ReadAt saves, sets and restores the cursor; the in-memory write cache's Write is proved against the byte-array view the file layer assumes (overwrite in place, cursor advances by the bytes written, length grows exactly to the new cursor). Bounded stand-in ioext:Counters (labelled bounded, not proved): the byte counters of internal/ioext (the handle's read cursor, the drive position on tapes) grow by exactly the count the wrapped stream delivered, for every script of <= 3 calls (thorough 4), buffer lengths 0..4, every delivered count and nil/EOF/other error.",
 "C16": " Added: Initialize creates a root only when a root lookup has just reported that the index (rebuilt from whatever tape was readable) has none -- also after a rebuild that ended in an error (torn tail). The rebuild closures of Initialize decrypt and verify with the read side's format and keys.",
}
NOTE_OVERRIDE = {
 "C02": "Undecided: full reject/accept tables of DESIGN 4.2 against the reference semantics (only the clauses above), names preserved across attribute changes, OpenFile(O_CREATE|O_EXCL) on a missing file reports not-exist (outside the flags the property lists). Counter-models of these obligations are replayed by running scripted histories next to the OS filesystem (battery `tree`).",
 "C07": "Assumed: sqlboiler Insert/Update semantics as in specs/90_sql.spec. MoveHeader on an occupied new name is decided by the bounded stand-in sql:MoveHeader (real SQLite, all small views, both index layouts: absolute names / rebuilt relative names).",
 "C13": "Undecided: a global tree well-formedness invariant over histories (only the per-call premises above); the SQL itself is bounded, not proved (<= 2 rows per view, thorough 3, 22-name alphabet, two layouts).",
 "C16": "Known finding (recorded, not repaired): records are appended at end-of-file wherever that is, so writes after opening a tape with a torn tail cannot be indexed (obligation appends-only-after-a-complete-record). Undecided: a stale index is accepted as is.",
}
for k, v in EXTRA_TEXT.items():
    CLAIMED[k]["text"] += v
for k, v in NOTE_OVERRIDE.items():
    CLAIMED[k]["note"] = v

def hooks_commits():
    out = subprocess.run(["git", "-C", "/repo", "log", "--format=%H %s"], capture_output=True, text=True).stdout
    return [l.split()[0] for l in out.splitlines() if l.split(" ", 1)[1].startswith("verif:")]

m = {
 "version": 1,
 "setup_cmd": "cd /verif/engine && GOFLAGS=-mod=mod GOPROXY=off GOSUMDB=off GOTOOLCHAIN=local go build -o /verif/bin/stfsvc .",
 "hooks": {
   "guard": "verif",
   "enable": "contracts are comment-only files contracts_verif.go behind `//go:build verif`; stfsvc loads /repo with -tags=verif",
   "baseline_off_cmd": "/verif/tools/baseline.sh /repo",
   "source_commits": hooks_commits(),
   "add_only": True,
 },
 "engines": [{
   "name": "stfsvc", "path": "/verif/engine",
   "serves_properties": sorted(CLAIMED),
   "kind_free_text": "contract-based deductive verifier for Go built for this task: go/ssa -> passive-form verification conditions (Boogie-style heap, ghost state, modular calls, loop invariants, defers) -> SMT-LIB, discharged by z3 5.1 / cvc5 1.0 / z3 4.8; contracts are //@ comments in /repo/**/contracts_verif.go, assumed library specs in /verif/specs",
 }],
 "checks": [],
 "notes": "See DESIGN.md. Every check rebuilds its obligations from /repo's working tree on each run.",
 "not_applicable": [],
}
for pid in sorted(CLAIMED):
    c = CLAIMED[pid]
    m["checks"].append({
      "property_id": pid,
      "quick_cmd": f"/verif/bin/stfsvc check {pid} --tier quick",
      "thorough_cmd": f"/verif/bin/stfsvc check {pid} --tier thorough",
      "evidence_file": f"/verif/evidence/{pid}.json",
      "replay_cmd_template": "cat {path}",
      "engine": "stfsvc",
      "level_claimed": {"category": "proof", "text": c["text"], "design_ref": "DESIGN.md " + c["design"]},
      "level_note": c["note"],
      "technique": "contract-based deductive verification: weakest-precondition style VCs generated from go/ssa of the real functions, discharged by SMT (z3/cvc5)",
    })
for pid in sorted(NOT_YET):
    if pid not in CLAIMED:
        m["not_applicable"].append({"property_id": pid, "reason": NOT_YET[pid]})
json.dump(m, open("/verif/MANIFEST.json", "w"), indent=1)
print("claimed:", sorted(CLAIMED))
