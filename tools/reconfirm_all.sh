#!/bin/bash
# re-run every stored seeded change against the current checks (demo + pinned are not repeated: only the checks)
cd /verif
for d in seeded/*/; do
  id=$(basename $d)
  WT=/tmp/rc_$id
  git -C /repo worktree remove --force $WT 2>/dev/null
  git -C /repo worktree add -q --detach $WT HEAD || continue
  if ! (cd $WT && git apply /verif/$d/patch.diff 2>/dev/null); then echo "$id: patch does not apply on HEAD"; git -C /repo worktree remove --force $WT; continue; fi
  (cd $WT && GOFLAGS=-mod=mod GOPROXY=off go build ./... ) || { echo "$id: does not build"; git -C /repo worktree remove --force $WT; continue; }
  caught=""
  for p in $(python3 -c "import json;print(' '.join(c['property_id'] for c in json.load(open('/verif/MANIFEST.json'))['checks']))"); do
    STFS_OUT=/tmp/seedout STFS_REPO=$WT /verif/bin/stfsvc check $p > $d/check_$p.log 2>&1; rc=$?
    [ $rc -ne 0 ] && caught="$caught $p(rc=$rc)"
  done
  git -C /repo worktree remove --force $WT
  python3 - "$id" "$caught" <<'PY'
import json,sys
p='/verif/seeded/%s/meta.json'%sys.argv[1]
m=json.load(open(p)); m['checks_raising']=sys.argv[2].split(); json.dump(m,open(p,'w'),indent=1)
print(sys.argv[1], 'breaks', m['breaks_property'], '-> raised by', m['checks_raising'])
PY
done
