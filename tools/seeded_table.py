#!/usr/bin/env python3
"""Rewrites the table between the E.6 markers of DESIGN.md from /verif/seeded/*/meta.json."""
import json, glob, os, re
rows = []
for d in sorted(glob.glob('/verif/seeded/C*')):
    m = json.load(open(d + '/meta.json'))
    patch = open(d + '/patch.diff').read()
    files = sorted(set(re.findall(r'^diff --git a/(\S+)', patch, re.M)))
    raising = m.get('checks_raising', [])
    own = m['breaks_property']
    viol = [c.split('(')[0] for c in raising if c.endswith('(rc=1)')]
    broken = [c.split('(')[0] for c in raising if c.endswith('(rc=2)')]
    status = 'caught by its own check' if own in viol else ('caught by another check only' if viol else 'MISSED')
    what = (m.get('what') or m.get('note') or '').strip().replace('\n', ' ')
    rows.append((m['id'], own, ', '.join(os.path.basename(f) for f in files), ', '.join(viol) or '-', ', '.join(broken) or '-', status))
tbl = ['| id | breaks | file | VIOLATION from | BROKEN-CHECK (exit 2) from | status |', '|---|---|---|---|---|---|']
tbl += ['| %s | %s | %s | %s | %s | %s |' % r for r in rows]
p = '/verif/DESIGN.md'
s = open(p).read()
a, b = '<!-- E6-TABLE-BEGIN -->', '<!-- E6-TABLE-END -->'
block = a + '\n' + '\n'.join(tbl) + '\n' + b
if a in s:
    s = s[:s.index(a)] + block + s[s.index(b) + len(b):]
else:
    s = s.rstrip() + '\n\n' + block + '\n'
open(p, 'w').write(s)
print(len(rows), 'rows;', sum(1 for r in rows if r[5] == 'MISSED'), 'missed')
