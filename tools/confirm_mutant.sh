#!/bin/bash
# usage: confirm_mutant.sh <seed-id> <src-out-dir> <demo-pkg-dir> <property>
# Confirms a seeded change in a scratch worktree: demo passes on HEAD, fails with the patch, pinned tests pass with the
# patch; then runs every claimed check against the patched tree. Stores everything under /verif/seeded/<seed-id>/.
set -u
ID=$1; SRC=$2; PKG=$3; PROP=$4
export GOFLAGS=-mod=mod GOPROXY=off GOSUMDB=off GOTOOLCHAIN=local
WT=/tmp/cm_$ID
DEST=/verif/seeded/$ID
mkdir -p $DEST
git -C /repo worktree remove --force $WT 2>/dev/null
git -C /repo worktree add -q --detach $WT HEAD || exit 2
cp $SRC/patch.diff $DEST/patch.diff
cp $SRC/zz_demo_test.go $DEST/zz_demo_test.go
[ -f $SRC/notes.md ] && cp $SRC/notes.md $DEST/notes.md
cp $SRC/zz_demo_test.go $WT/$PKG/zz_demo_test.go
(cd $WT && go test -vet=off -count=1 -timeout 300s -run 'TestDemo' ./$PKG/ > $DEST/demo_clean.log 2>&1); CLEAN=$?
(cd $WT && git apply $DEST/patch.diff) || { echo "patch does not apply"; exit 2; }
(cd $WT && go build ./... > $DEST/build.log 2>&1); BUILD=$?
(cd $WT && go test -vet=off -count=1 -timeout 300s -run 'TestDemo' ./$PKG/ > $DEST/demo_patched.log 2>&1); PATCHED=$?
rm -f $WT/$PKG/zz_demo_test.go
/verif/tools/pinned_fast.sh $WT > $DEST/pinned.log 2>&1; PINNED=$?
CAUGHT=""
[ "${SKIP_CHECKS:-0}" = "1" ] || for p in $(python3 -c "import json;print(' '.join(c['property_id'] for c in json.load(open('/verif/MANIFEST.json'))['checks']))"); do
  STFS_OUT=/tmp/seedout STFS_REPO=$WT /verif/bin/stfsvc check $p > $DEST/check_$p.log 2>&1; rc=$?
  if [ $rc -ne 0 ]; then CAUGHT="$CAUGHT $p(rc=$rc)"; fi
done
# evidence files were rewritten against the scratch tree: restore them
git -C /repo worktree remove --force $WT
python3 - "$ID" "$PROP" "$PKG" "$CLEAN" "$BUILD" "$PATCHED" "$PINNED" "$CAUGHT" <<'PY'
import json,sys
id,prop,pkg,clean,build,patched,pinned,caught=sys.argv[1:9]
meta={"id":id,"breaks_property":prop,"demo_package":pkg,
 "demo_passes_on_unchanged_tree":clean=="0","builds_with_change":build=="0","demo_fails_with_change":patched!="0",
 "pinned_tests_pass_with_change":pinned=="0","checks_raising":caught.split(),
 "ran":["go test -run TestDemo ./%s/ on HEAD and with patch.diff applied (scratch worktree)"%pkg,"/verif/tools/pinned_fast.sh on the patched worktree","every claimed /verif check with STFS_REPO pointing at the patched worktree"]}
p='/verif/seeded/%s/meta.json'%id
try:
    old=json.load(open(p)); meta={**old,**meta}
except Exception: pass
json.dump(meta,open(p,'w'),indent=1)
print(json.dumps(meta))
PY
