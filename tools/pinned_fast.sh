#!/bin/bash
# Runs only the pinned tests (TestFile_Name permutations + FileInfo getters in pkg/fs, ~2 min) and compares with BASELINE stable_pass.
REPO=${1:-/repo}
export GOFLAGS=-mod=mod GOPROXY=off GOSUMDB=off GOTOOLCHAIN=local
OUT=$(mktemp /tmp/pinned.XXXXXX.json)
(cd $REPO && go test -json -vet=off -count=1 -timeout 25m -run 'TestFile_Name|TestFileInfo|TestNewFileInfo' ./pkg/fs/ > $OUT 2>/dev/null)
python3 - "$OUT" <<'PY'
import json,sys
base=set(json.load(open('/root/.vp/BASELINE.json'))['stable_pass'])
passed=set()
for l in open(sys.argv[1]):
    try: e=json.loads(l)
    except Exception: continue
    if e.get('Action')=='pass' and e.get('Test'):
        passed.add(e['Package']+'::'+e['Test'])
missing=sorted(base-passed)
print('baseline stable:',len(base),'passed-of-those:',len(base&passed),'missing:',len(missing))
for m in missing[:10]: print('  MISSING',m)
sys.exit(1 if missing else 0)
PY
rc=$?; rm -f $OUT; exit $rc
